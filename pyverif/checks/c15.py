"""C15 -- YAML, Python and inherited definitions of a model are equivalent.

(1) one spec -> four builds (Python classes, YAML text loaded by from_yaml, to_yaml -> from_yaml round trip, derived
    templates via base:) -> each emitted function is proved equal to the same reference semantics (TV);
(2) CrossHair on the real whole-identifier replacement (parser.replace, _update_equation) with symbolic strings.
"""
from .. import families, tvjobs, ch
from ..report import Report
from .c01 import FUNCS


def build_same_name(spec):
    """every node gets its OWN OperatorTemplate objects - same operator names, same equations, but the node's values as
    the template defaults (instead of per-node overrides of one shared template)"""
    import copy
    from pyrates import CircuitTemplate, NodeTemplate, OperatorTemplate
    nodes = {}
    for n, ns in spec.nodes.items():
        ops = []
        for oname in ns.ops:
            o = copy.deepcopy(spec.ops[oname])
            for (oo, v), val in ns.overrides.items():
                if oo == oname:
                    o.vars[v] = (o.vars[v][0], val)
            ops.append(OperatorTemplate(name=o.name, path=None, equations=o.eq_strings(), variables=o.var_defs()))
        nodes[n] = NodeTemplate(name=f"{n}_tpl", path=None, operators=ops)
    edges = [(e.src, e.tgt, None, {'weight': float(e.weight)}) for e in spec.edges]
    return CircuitTemplate(spec.name, nodes=nodes, edges=edges)


def build_derived_twice(spec):
    """the derived operator dop (= bop plus one added equation) is derived TWICE through OperatorTemplate.update_template
    with the SAME edits dictionary object; the circuit uses the second derivation"""
    from pyrates import CircuitTemplate, NodeTemplate, OperatorTemplate
    b, d = spec.ops['bop'], spec.ops['dop']
    bop = OperatorTemplate(name='bop', path=None, equations=b.eq_strings(), variables=b.var_defs())
    edits = {'add': [q for q in d.eq_strings() if q not in b.eq_strings()]}
    newvars = {v: x for v, x in d.var_defs().items() if v not in b.var_defs()}
    bop.update_template(name='dop', equations=edits, variables=dict(newvars))
    dop = bop.update_template(name='dop', equations=edits, variables=dict(newvars))
    tpl = {'bop': bop, 'dop': dop}
    nodes = {}
    for n, ns in spec.nodes.items():
        nodes[n] = NodeTemplate(name=f"{n}_tpl", path=None, operators={
            tpl[o]: {v: float(val) for (oo, v), val in ns.overrides.items() if oo == o} for o in ns.ops})
    edges = [(e.src, e.tgt, None, {'weight': float(e.weight)}) for e in spec.edges]
    return CircuitTemplate(spec.name, nodes=nodes, edges=edges)


def _tv_job(job):
    if job.get('same_sub'):
        # ONE sub-circuit template object under two keys, then per-node values on single branches (update_var replaces
        # the addressed branch by a copy that keeps the template NAME): the dump must keep the branches apart
        import random
        from . import c07
        from .. import yamlio, tv
        from ..spec import build_python as bp
        spec, fp = c07.base_spec(job['shared'], job['hier'], same_sub=True)
        ops, exp, _kw = c07.gen_history(spec, fp, random.Random(job['seed']), job['length'], job['hier'])
        ops = [o for o in ops if o[0] == 'update_var']

        def pre(_ct, _spec):
            ct = c07.apply_ops(bp(spec, share_circuits=True), ops)
            try:
                return yamlio.roundtrip_template(ct)
            except Exception as e:   # noqa
                raise tv.CompileError(RuntimeError(f"to_yaml -> from_yaml fails: {type(e).__name__}: {e}"))
        j = dict(job, spec=exp, builder='python', pre=pre)
        r = tvjobs.tv_job(j)
        r['exp_spec'] = exp
        r['history'] = [str(o)[:100] for o in ops] + ['to_yaml -> from_yaml']
        return r
    if job.get('derive_twice'):
        j = dict(job)
        j['builder'] = 'python'
        j['pre'] = lambda _ct, spec: build_derived_twice(spec)
        return tvjobs.tv_job(j)
    if job.get('same_name'):
        from .. import yamlio, tv
        j = dict(job)
        j['builder'] = 'python'

        def pre(_ct, spec):
            ct = build_same_name(spec)
            if job['same_name'] == 'roundtrip':
                try:
                    ct = yamlio.roundtrip_template(ct)
                except Exception as e:   # noqa
                    raise tv.CompileError(RuntimeError(f"to_yaml -> from_yaml fails: {type(e).__name__}: {e}"))
            return ct
        j['pre'] = pre
        return tvjobs.tv_job(j)
    if job.get('derived'):
        from .. import yamlio, tv, tvspec, decide
        ct = yamlio.build_yaml(job['spec'], derived=job['derived'])
        j = dict(job)
        j['builder'] = 'python'
        j['pre'] = lambda _ct, _spec: ct
        return tvjobs.tv_job(j)
    return tvjobs.tv_job(job)


def run(tier='quick', seed=0, only=None, verbose=False):
    rep = Report('C15', tier, seed, 'translation_validation', functions_encoded=FUNCS + [
        'pyrates.frontend.template.from_yaml / update_template chain (concrete)',
        'pyrates.frontend.dict.from_circuit + fileio.yaml.dump_to_yaml (concrete)',
        'pyrates.backend.parser.replace (CrossHair, symbolic strings)',
        'pyrates.frontend.template.operator._update_equation (CrossHair, symbolic strings)'],
        bounds=dict(frontends='python, yaml, to_yaml->from_yaml, base: chains of length 1-2, a file path written twice (other values first)',
                    crosshair='|eq| <= 4 (quick) / 5 (thorough), |term| <= 2, alphabet {r,x,_,space,+,=}'),
        stubs=['numpy library model'],
        assumptions=['reals for floats', 'equation edits are compared with token-level edits of the spec'])
    progs = []
    progs += families.fam_edges_two_nodes(1, 2)
    progs += families.fam_single_node_chains()[:4]
    progs += families.fam_hierarchy()[:3] + families.fam_hierarchy()[4:6]
    progs += families.fam_edge_templates()
    progs += families.fam_mixed_nodes(seed, n=4 if tier == 'quick' else 30)
    progs += families.fam_equal_values()
    progs += families.fam_partial_overrides()
    progs += families.fam_zero_overrides()
    jobs = []
    for key, spec in progs:
        for builder in ('python', 'yaml', 'roundtrip', 'yaml_roundtrip'):
            vecs = (True, False) if tier == 'thorough' else ((True,) if 'roundtrip' not in builder else (False,))
            for vec in vecs:
                jobs.append(dict(key=f"{key}|{builder}|vec={vec}", spec=spec, vectorize=vec, backend='default',
                                 builder=builder))
    # the same file path written twice with different contents (decoy first), loaded after each write
    for key, spec in (progs[:3] + families.fam_hierarchy()[:1] + families.fam_partial_overrides()[:2]
                      if tier == 'quick' else progs[::3]):
        for builder in ('yaml_rewritten', 'roundtrip_rewritten'):
            jobs.append(dict(key=f"{key}|{builder}|vec=False", spec=spec, vectorize=False, backend='default',
                             builder=builder))
    for key, spec, derived in families.fam_derived():
        for vec in (True, False):
            jobs.append(dict(key=f"{key}|derived|vec={vec}", spec=spec, vectorize=vec, backend='default',
                             builder='yaml', derived=derived))
    for key, spec, derived in families.fam_derived():
        if key == 'FD:add_eq:chain=1':
            for vec in (True, False):
                jobs.append(dict(key=f"{key}|derived-twice-with-one-edits-dict|vec={vec}", spec=spec, vectorize=vec,
                                 backend='default', derive_twice=True))
    for hier in (True, 2):
        for i in range(2 if tier == 'quick' else 6):
            jobs.append(dict(key=f"samesub:levels={int(hier) + 1}:{i}|update_var|roundtrip|vec={bool(i % 2)}", spec=None,
                             vectorize=bool(i % 2), backend='default', same_sub=True, hier=hier, shared=bool(i % 2),
                             seed=seed * 100 + i, length=0))
    # operator templates that share a NAME but are different objects with different default values (two and three)
    for key, spec in families.fam_zero_overrides()[:1] + families.fam_edges_two_nodes(1, 2)[:1]:
        for how in ('python', 'roundtrip'):
            jobs.append(dict(key=f"{key}|same-name-operator-templates|{how}|vec=False", spec=spec, vectorize=False,
                             backend='default', same_name=how))
    if only:
        jobs = [j for j in jobs if only in j['key']]
    tvjobs.run_tv_jobs(rep, jobs, verbose=verbose, fn=_tv_job)

    # CrossHair harnesses -------------------------------------------------------------------
    if not only or 'crosshair' in only:
        suffix = '_q' if tier == 'quick' else '_t'
        for r in ch.run_module('pyverif.chh.c15_replace', timeout=60 if tier == 'quick' else 400, suffix=suffix):
            rep.program('crosshair:' + r['name'], sample=dict(harness=r['name'], verdict=r['verdict'], wall=r['wall']))
            rep.section('crosshair', harnesses=1, **{r['verdict']: 1})
            if not r['twin_ok']:
                rep.harness_error(f"reachability twin of {r['name']} not refuted ({r['twin_verdict']})")
            if r['verdict'] == 'confirmed':
                rep.add_tally(dict(obligations=1, unsat=1))
            elif r['verdict'] in ('refuted', 'raises'):
                rep.add_tally(dict(obligations=1, sat=1))
                if r.get('replayed', '').startswith(('False', 'raises')):
                    rep.violation(dict(property='C15', kind='crosshair', harness=r['name'], call=r['cex'],
                                       what=f"{r['cex']} is false on the real function (replayed: {r['replayed']})"))
                else:
                    rep.inconcl(dict(key=r['name'], what=f"counterexample {r['cex']} did not reproduce"))
            else:
                rep.add_tally(dict(obligations=1, unknown=1))
                rep.inconcl(dict(key=r['name'], what='CrossHair: not confirmed within the time budget', raw=r['raw'][-200:]))
    return rep.finish(rule='programs = (generated spec, frontend in {python, yaml, to_yaml->from_yaml, base:-derived}, '
                           'vectorize); every build is compiled by the real pipeline and proved equal to the same '
                           'reference semantics per state variable; plus CrossHair harnesses (symbolic strings) on '
                           'parser.replace and _update_equation against a whole-identifier reference.')
