"""C16 -- Population/Connectivity equals the explicit node-and-edge network.

A PopModel is built twice through the real frontend - PopulationTemplate(n) + Connectivity, and the explicit network
with one node per unit and one scalar edge per non-zero matrix entry - and both emitted functions are proved equal
(z3, all states/parameters/weights) to the reference semantics of the EXPLICIT network: target_i = sum_j W[i,j]*source_j,
scalar weight w = w*sum_j source_j, coupling edges evaluated per (target, source) pair, per-unit parameters, delays and
spread as on scalar edges.  Every matrix entry and every per-unit parameter is its own symbol (bound by value), so a
transposition or a unit permutation changes the term.  Population outputs of run() are checked by tag flow.
"""
import os
import random
import shutil
import warnings
from fractions import Fraction as F

import numpy as np

from .. import families, tv, tvspec, decide, runner, findings, tvdelay
from .. import expr as X
from ..expr import V, C
from ..spec import OpSpec, EdgeTplSpec, FP, ModelSpec, build_python
from ..popmodel import Pop, Conn, PopModel, explicit_spec, build_population, unit
from ..report import Report
from .c01 import FUNCS
from .c06 import TAG

DT = F(1, 4)


def make_model(kind, seed):
    rnd = random.Random(seed)
    fp = FP()
    li = families.op_leaky(fp)
    li.vars['u'] = ('input', F(0))
    o1 = families.op_two_inputs(fp, x='v') if ((kind == 'xcoupling' and seed % 2 == 0) or kind == 'dyncoupling') else families.op_two_inputs(fp)
    o1.vars['u'] = ('input', F(0))
    o1.vars['w'] = ('input', F(0))
    # coupling operators: the last program of each batch keeps a constant inside the coupling operator (rejected
    # today with KeyError, see known findings), the others are parameter free like the shipped Kuramoto edge
    with_const = (kind == 'coupling' and seed % 4 == 3)
    if with_const:
        cpl = OpSpec('cpl', [('z', 'alg', X.mul(V('gn'), X.call('tanh', X.sub(V('pre'), V('post')))))],
                     {'z': ('alg', F(0)), 'pre': ('input', F(0)), 'post': ('input', F(0)), 'gn': ('const', fp())},
                     output='z')
    else:
        cpl = OpSpec('cpl', [('z', 'alg', X.call('tanh', X.sub(V('pre'), V('post'))))],
                     {'z': ('alg', F(0)), 'pre': ('input', F(0)), 'post': ('input', F(0))}, output='z')
    cpl1 = OpSpec('cp1', [('z', 'alg', X.add(X.mul(C(3), V('pre')), X.mul(V('pre'), V('pre'))))],
                  {'z': ('alg', F(0)), 'pre': ('input', F(0))}, output='z')
    # dynamic coupling operator: one state variable per (target, source) pair
    if seed % 2:
        dyn = OpSpec('dyn', [('s', 'de', X.sub(X.call('tanh', X.sub(V('pre'), V('post'))), V('s')))],
                     {'s': ('state', F(0)), 'pre': ('input', F(0)), 'post': ('input', F(0))}, output='s')
    else:
        dyn = OpSpec('dyn', [('s', 'de', X.div(X.sub(X.mul(V('pre'), V('post')), V('s')), V('te')))],
                     {'s': ('state', F(0)), 'pre': ('input', F(0)), 'post': ('input', F(0)), 'te': ('const', fp())},
                     output='s')
    # coupling operator with an intermediate variable (two equations; the second one multiplies the first)
    cp2 = OpSpec('cp2', [('q', 'alg', X.add(V('pre'), V('gn'))), ('z', 'alg', X.mul(V('q'), C(2)))],
                 {'z': ('alg', F(0)), 'q': ('alg', F(0)), 'pre': ('input', F(0)), 'gn': ('const', fp())}, output='z')
    ops = {'li': li, 'o1': o1, 'cpl': cpl, 'cp1': cpl1, 'dyn': dyn, 'cp2': cp2}
    etp = {'ce': EdgeTplSpec('ce', ['cpl']), 'c1': EdgeTplSpec('c1', ['cp1']), 'de': EdgeTplSpec('de', ['dyn']),
           'c2': EdgeTplSpec('c2', ['cp2'])}
    if kind in ('coupling2', 'coupling3'):
        # two coupling operators with the SAME equations and variable definitions, different constants (and names)
        for nm in ('cka', 'ckb'):
            if seed % 2:
                ops[nm] = OpSpec(nm, [('s', 'de', X.div(X.sub(X.mul(V('gn'), V('pre')), V('s')), V('te')))],
                                 {'s': ('state', F(0)), 'pre': ('input', F(0)), 'gn': ('const', fp()), 'te': ('const', fp())},
                                 output='s')
            else:
                ops[nm] = OpSpec(nm, [('z', 'alg', X.mul(V('gn'), X.call('tanh', V('pre'))))],
                                 {'z': ('alg', F(0)), 'pre': ('input', F(0)), 'gn': ('const', fp())}, output='z')
            etp['e' + nm] = EdgeTplSpec('e' + nm, [nm])
    # coupling/delay/spread kinds mostly with >= 2 units (size-1 populations hit the recorded n=1 finding)
    lo = 1 if (kind in ('matrix', 'scalar') or (seed % 5 == 4 and kind not in ('delay2', 'spread2', 'dyncoupling', 'coupling2', 'coupling3', 'coupling-self', 'coupling-2eq', 'same-source', 'spread-wide', 'spread-dde', 'delay+spread', 'spread+delay'))) else 2
    na = rnd.randint(lo, 3)
    nb = rnd.randint(lo, 3)
    if kind == 'xcoupling' and seed % 4 < 2:
        nb = na          # equally sized populations: a source/target mix-up stays shape-consistent
    if kind == 'dyncoupling':
        na, nb = 2 + seed % 2, 2 + (seed // 2) % 2

    def pvals(n):
        return [fp() for _ in range(n)]
    pops = {'a': Pop(['li'], na, {'li/x': pvals(na), 'li/tau': pvals(na)}),
            'b': Pop(['o1'], nb, {f'o1/{o1.output}': pvals(nb), 'o1/k': pvals(nb), 'o1/g': fp(), 'o1/c': pvals(nb)})}

    def Wm(nt, ns, density=0.7, signed=True):
        M = []
        for i in range(nt):
            row = []
            for j in range(ns):
                if rnd.random() < density:
                    v = fp()
                    row.append(-v if signed and rnd.random() < 0.3 else v)
                else:
                    row.append(F(0))
            M.append(row)
        if all(x == 0 for r in M for x in r):
            M[0][0] = fp()
        return M
    conns = []
    if kind == 'matrix':
        conns.append(Conn('a/li/x', 'a/li/u', Wm(na, na)))
        conns.append(Conn('a/li/x', 'b/o1/u', Wm(nb, na)))
        conns.append(Conn('b/o1/x', 'a/li/u', Wm(na, nb)) if rnd.random() < 0.5 else Conn('b/o1/x', 'b/o1/w', Wm(nb, nb)))
    elif kind == 'scalar':
        conns.append(Conn('a/li/x', 'b/o1/u', fp()))
        conns.append(Conn('b/o1/x', 'b/o1/w', Wm(nb, nb)))
    elif kind == 'coupling':
        conns.append(Conn('a/li/x', 'a/li/u', Wm(na, na), edge='ce', var_map={'pre': 'source', 'post': 'a/li/x'}))
        conns.append(Conn('a/li/x', 'b/o1/u', Wm(nb, na), edge='c1', var_map={'pre': 'source'}))
    elif kind == 'coupling3':
        # two populations project into ONE target variable through the same coupling operator with other constants
        conns.append(Conn('a/li/x', 'b/o1/u', Wm(nb, na), edge='ecka', var_map={'pre': 'source'},
                          edge_values={'cka/gn': fp()}))
        conns.append(Conn('b/o1/x', 'b/o1/u', Wm(nb, nb), edge='ecka', var_map={'pre': 'source'},
                          edge_values={'cka/gn': fp()}))
        conns.append(Conn('b/o1/x', 'a/li/u', Wm(na, nb)))
    elif kind == 'coupling2':
        conns.append(Conn('a/li/x', 'b/o1/u', Wm(nb, na), edge='ecka', var_map={'pre': 'source'}))
        if seed % 4 < 2:
            conns.append(Conn('b/o1/x', 'b/o1/w', Wm(nb, nb), edge='eckb', var_map={'pre': 'source'}))
        else:
            conns.append(Conn('b/o1/x', 'a/li/u', Wm(na, nb), edge='eckb', var_map={'pre': 'source'}))
    elif kind == 'coupling-2eq':
        conns.append(Conn('a/li/x', 'b/o1/u', Wm(nb, na), edge='c2', var_map={'pre': 'source'}))
        conns.append(Conn('b/o1/x', 'a/li/u', Wm(na, nb)))
    elif kind == 'coupling-self':
        # a population coupled onto itself (the coupling function reads the target-side variable) next to a second coupled
        # input of the same target variable from the other population
        if seed % 4 < 2:
            own = Conn('b/o1/x', 'b/o1/u', Wm(nb, nb), edge='ce', var_map={'pre': 'source', 'post': 'b/o1/x'})
            ext = Conn('a/li/x', 'b/o1/u', Wm(nb, na), edge='ce', var_map={'pre': 'source', 'post': 'b/o1/x'})
            back = Conn('b/o1/x', 'a/li/u', Wm(na, nb))
        else:
            own = Conn('a/li/x', 'a/li/u', Wm(na, na), edge='ce', var_map={'pre': 'source', 'post': 'a/li/x'})
            ext = Conn('b/o1/x', 'a/li/u', Wm(na, nb), edge='ce', var_map={'pre': 'source', 'post': 'a/li/x'})
            back = Conn('a/li/x', 'b/o1/u', Wm(nb, na))
        conns += ([own, ext] if seed % 2 else [ext, own]) + [back]
    elif kind == 'same-source':
        # two Connectivity objects from one source variable into one target variable
        if seed % 2:
            conns.append(Conn('a/li/x', 'b/o1/u', Wm(nb, na)))
            conns.append(Conn('a/li/x', 'b/o1/u', Wm(nb, na), edge='c1', var_map={'pre': 'source'}))
        else:
            # two plain matrices add up entry by entry; unsigned weights in generation order keep the sums of the
            # fingerprints pairwise distinct (both summands grow from entry to entry)
            conns.append(Conn('a/li/x', 'b/o1/u', Wm(nb, na, signed=False)))
            conns.append(Conn('a/li/x', 'b/o1/u', Wm(nb, na, signed=False)))
        conns.append(Conn('b/o1/x', 'a/li/u', Wm(na, nb)))
    elif kind == 'xcoupling':
        # coupling between two different populations whose operator reads a variable of the TARGET unit; every other
        # program gives the target variable a name of its own (v) so that it cannot be mistaken for the source's x
        post = 'b/o1/v' if seed % 2 == 0 else 'b/o1/x'
        conns.append(Conn('a/li/x', 'b/o1/u', Wm(nb, na), edge='ce', var_map={'pre': 'source', 'post': post}))
        conns.append(Conn('b/o1/' + post.rsplit('/', 1)[1], 'a/li/u', Wm(na, nb)))
    elif kind == 'dyncoupling':
        post = 'b/o1/v'
        conns.append(Conn('a/li/x', 'b/o1/u', Wm(nb, na), edge='de', var_map={'pre': 'source', 'post': post}))
        conns.append(Conn('b/o1/v', 'a/li/u', Wm(na, nb)))
    elif kind == 'delay':
        # multiples of the step and off-grid values (2.625 and 2.6 steps round to 3, 2.375 to 2)
        dsteps = rnd.choice([2, 3, F(21, 8), F(13, 5), F(19, 8)])
        if seed % 4 == 1:
            dsteps = F(8, 5)        # less than two steps as a number, two steps after rounding
        elif seed % 4 == 3:
            dsteps = F(7, 4)
        elif seed % 4 == 2:
            dsteps = F(7, 5)        # rounds to ONE step: neglected, as on a scalar edge
        conns.append(Conn('a/li/x', 'b/o1/u', Wm(nb, na), delay=DT * dsteps))
        conns.append(Conn('b/o1/x', 'a/li/u', Wm(na, nb)))
    elif kind == 'delay2':
        # two delayed Connectivity objects read the SAME source variable with different delays
        d1, d2 = rnd.choice([(2, 3), (3, 2), (2, 4)])
        conns.append(Conn('a/li/x', 'b/o1/u', Wm(nb, na), delay=DT * d1))
        if seed % 2:
            conns.append(Conn('a/li/x', 'b/o1/w', Wm(nb, na), delay=DT * d2))      # same target population
            conns.append(Conn('b/o1/x', 'a/li/u', Wm(na, nb)))
        else:
            conns.append(Conn('a/li/x', 'a/li/u', Wm(na, na), delay=DT * d2))      # another target population
            conns.append(Conn('b/o1/x', 'b/o1/w', Wm(nb, nb)))
    elif kind == 'spread2':
        conns.append(Conn('a/li/x', 'b/o1/u', Wm(nb, na), delay=F(1, 2), spread=F(1, 4)))
        if seed % 2:
            conns.append(Conn('a/li/x', 'b/o1/w', Wm(nb, na), delay=F(1), spread=F(2, 3)))
            conns.append(Conn('b/o1/x', 'a/li/u', Wm(na, nb)))
        else:
            conns.append(Conn('a/li/x', 'a/li/u', Wm(na, na), delay=F(1), spread=F(2, 3)))
            conns.append(Conn('b/o1/x', 'b/o1/w', Wm(nb, nb)))
    elif kind in ('delay+spread', 'spread+delay'):
        # a ring-buffer Connectivity and a gamma-kernel Connectivity read the same source variable, in either order
        c_d = Conn('a/li/x', 'b/o1/u', Wm(nb, na), delay=DT * rnd.choice([2, 3]))
        c_s = Conn('a/li/x', 'a/li/u' if seed % 2 else 'b/o1/w', Wm(na if seed % 2 else nb, na), delay=F(1), spread=F(2, 3))
        conns += [c_d, c_s] if kind == 'delay+spread' else [c_s, c_d]
        conns.append(Conn('b/o1/x', 'b/o1/w' if seed % 2 else 'a/li/u', Wm(nb if seed % 2 else na, nb)))
    elif kind in ('spread', 'spread-wide', 'spread-dde'):
        d, s = rnd.choice([(F(1, 2), F(1, 4)), (F(1), F(2, 3)), (F(1), F(1, 2)), (F(1, 2), F(1, 2))])
        if kind == 'spread-wide':
            d, s = [(F(1, 2), F(1)), (F(1, 2), F(3, 4))][seed % 2]     # (d/s)^2 rounds to 0: no stage at all
        elif kind == 'spread-dde':
            d, s = [(F(1), F(1, 2)), (F(1), F(2, 3))][seed % 2]        # order 4 > dde_approx=3; order 2 < 3 -> 3
        conns.append(Conn('a/li/x', 'b/o1/u', Wm(nb, na), delay=d, spread=s))
        conns.append(Conn('b/o1/x', 'a/li/u', Wm(na, nb)))
    return PopModel(ops, pops, conns, etp, note=f"{kind}: |a|={na}, |b|={nb}, coupling constant={with_const}")


def job_fn(job):
    pm = make_model(job['kind'], job['seed'])
    if job.get('shared_pop'):
        # a third population a2 that is the SAME PopulationTemplate object as a (values given for a must not reach a2)
        import copy
        pm.pops['a2'] = copy.deepcopy(pm.pops['a'])
    spec = explicit_spec(pm)
    out = dict(status='ok', exp_spec=spec)
    ckw = {}
    if job['build'] == 'population':
        ct = build_population(pm)
        vec = True
        if job.get('shared_pop'):
            ct.populations['a2'] = ct.populations['a']
            ct.nodes['a2'] = ct.populations['a'].node
        if job.get('node_values'):
            # values given at translation time (node_values) for population variables: one value per unit / one scalar
            import copy
            fp = FP(400)
            pm2 = copy.deepcopy(pm)
            new_tau = [fp() for _ in range(pm.pops['a'].n)]
            new_g = fp()
            pm2.pops['a'].params['li/tau'] = new_tau
            pm2.pops['b'].params['o1/g'] = new_g
            ckw = dict(node_values={'a/li/tau': np.array([float(v) for v in new_tau]), 'b/o1/g': float(new_g)})
            if job.get('shared_pop'):
                # (a2 gets initial values of its own, so that its units can be told apart from those of a)
                new_x2 = [fp() for _ in range(pm.pops['a'].n)]
                pm2.pops['a2'].params['li/x'] = new_x2
                ckw['node_values']['a2/li/x'] = np.array([float(v) for v in new_x2])
            spec = explicit_spec(pm2)
            out['exp_spec'] = spec
        if job.get('update_var'):
            # the same values through CircuitTemplate.update_var on the population variables
            import copy
            fp = FP(400)
            pm2 = copy.deepcopy(pm)
            new_tau = [fp() for _ in range(pm.pops['a'].n)]
            new_g = fp()
            pm2.pops['a'].params['li/tau'] = new_tau
            pm2.pops['b'].params['o1/g'] = new_g
            spec = explicit_spec(pm2)
            out['exp_spec'] = spec
            ct.update_var(node_vars={'a/li/tau': np.array([float(v) for v in new_tau]), 'b/o1/g': float(new_g)})
        if job.get('derive'):
            # a template derived without in_place (as run() derives one internally to attach an extrinsic input) is still the
            # circuit of populations
            ct = ct.update_template(name='popmodel_derived')
        if job.get('derive_then_edit'):
            # C14: a template derived WITHOUT in_place gets other population values (update_var on the derived one, and
            # a non-mutating run of it); the BASE template is compiled afterwards and must still be the original model
            base = ct
            d = base.update_template(name='popmodel_copy')
            fp = FP(400)
            d.update_var(node_vars={'a/li/tau': np.array([float(fp()) for _ in range(pm.pops['a'].n)]), 'b/o1/g': float(fp())})
            ct = base
        if job.get('extra_edge'):
            # two ordinary nodes and an ordinary edge next to the populations (both forms get them)
            from pyrates import CircuitTemplate
            from ..spec import NodeSpec, EdgeSpec
            fpx = FP(500)
            xs = CircuitTemplate('x', nodes={}, edges=[])
            spec.nodes['zx0'] = NodeSpec(['li'], {('li', 'x'): fpx(), ('li', 'tau'): fpx()})
            spec.nodes['zx1'] = NodeSpec(['li'], {('li', 'x'): fpx(), ('li', 'tau'): fpx()})
            spec.edges.append(EdgeSpec('zx0/li/x', 'zx1/li/u', fpx()))
            extra = build_python(ModelSpec('extra', {'li': spec.ops['li']}, {k: spec.nodes[k] for k in ('zx0', 'zx1')},
                                           [spec.edges[-1]]))
            ct = CircuitTemplate('popmodel', nodes=dict(extra.nodes), edges=list(extra.edges),
                                 populations=dict(ct.populations), connections=list(ct.connections))
    else:
        ct = build_python(spec)
        vec = job['vectorize']
    if job['kind'] == 'spread-dde':
        ckw['dde_approx'] = 3
    tally = decide.Tally()
    try:
        c = tv.compile_template(ct, vectorize=vec, step_size=float(DT), solver='euler', **ckw)
    except tv.CompileError as e:
        return dict(status='compile-raises', error=str(e), exp_spec=spec)
    plugin = None
    if job['kind'] in ('delay', 'delay2'):
        plugin = tvdelay.RingBufferPlugin(DT)
    elif job['kind'] in ('spread', 'spread2', 'spread-wide'):
        plugin = tvdelay.ChainPlugin()
    elif job['kind'] == 'spread-dde':
        # both a spread and dde_approx: the order of scalar edges, round((d/s)^2) but at least dde_approx
        plugin = tvdelay.ChainPlugin(order_of=lambda e: max(round((F(e.delay) / F(e.spread)) ** 2), 3))
    elif job['kind'] in ('delay+spread', 'spread+delay'):
        plugin = tvdelay.Composite(tvdelay.RingBufferPlugin(DT), tvdelay.ChainPlugin())
    elif job['kind'] == 'dyncoupling' or (job['kind'] in ('coupling2', 'coupling3') and job['seed'] % 2):
        plugin = tvdelay.EdgeStatePlugin()
    res = tvspec.validate(spec, c, tally, vectorized=True, plugin=plugin, t_sym=2)
    r = dict(status='ok', res=res, tally=tally.as_dict(), src=c.src, keys=list(c.keys),
             smap={k: str(v) for k, v in c.smap.items()}, exp_spec=spec)
    # population outputs of run(): one column per unit, in unit order (tag flow)
    if job['build'] == 'population' and not res['violations'] and job['kind'] in ('matrix', 'scalar') \
            and not job.get('shared_pop'):
        r['res']['violations'] += _population_outputs(pm, spec)
    return r


def _population_outputs(pm, spec):
    import pyrates.backend.base.base_backend as bb
    viol = []
    cap = {}

    def stub(self, solver, func, args, T, dt, dts, y0, t0, times, **kw):
        steps = int(np.round(T / dts))
        ny = int(np.size(y0))
        rec = np.zeros((steps, ny))
        for k in range(steps):
            rec[k, :] = k * TAG + np.arange(ny)
        cap['y0'] = np.array(y0, copy=True)
        return rec
    orig = bb.BaseBackend._solve
    bb.BaseBackend._solve = stub
    wd = tv.scratch_dir()
    old = os.getcwd()
    os.chdir(wd)
    try:
        with warnings.catch_warnings():
            warnings.simplefilter('ignore')
            ct = build_population(pm)
            df = ct.run(simulation_time=0.5, step_size=0.25, outputs={'xa': 'a/li/x', 'xb': 'b/o1/x'}, verbose=False,
                        float_precision='float64', solver='euler', in_place=False)
        syms = tvspec.Symbols(spec)
        y0 = cap['y0']
        pos = {}
        for j, v in enumerate(y0):
            k = syms.state_pos_fp.get(tv.frac_of(v))
            if k is not None:
                pos[k] = j
        vals = np.asarray(df.values)
        from .c06 import _norm_label
        cols = [_norm_label(cc) for cc in df.columns]
        for key, (pn, o, v) in {'xa': ('a', 'li', 'x'), 'xb': ('b', 'o1', 'x')}.items():
            n = pm.pops[pn].n
            for i in range(n):
                lab = (key, i) if n > 1 else key
                cand = [j for j, cname in enumerate(cols) if cname == lab or (n == 1 and cname in ((key, 0), key))]
                if not cand:
                    viol.append(dict(kind='columns', what=f"population output {key}: no column for unit {i}; columns {cols}"))
                    continue
                tags = set(int(x) % TAG for x in vals[:, cand[0]])
                want = pos[(unit(pn, i), o, v)]
                if tags != {want}:
                    viol.append(dict(kind='column-content', what=f"population output column {lab} carries state index "
                                     f"{sorted(tags)}, unit {i} of {pn} sits at {want}"))
    except Exception as e:   # noqa
        viol.append(dict(kind='run-raises', what=f"run() with population outputs raises {type(e).__name__}: {e}"))
    finally:
        bb.BaseBackend._solve = orig
        os.chdir(old)
        shutil.rmtree(wd, ignore_errors=True)
    return viol


def run(tier='quick', seed=0, only=None, verbose=False):
    from .. import tvjobs
    rep = Report('C16', tier, seed, 'translation_validation', functions_encoded=FUNCS + [
        'PopulationTemplate.apply, CircuitTemplate._apply_populations_and_connections (concrete)',
        'NetworkGraph._generate_edge_equation cases 0a/0b/0c/0g, _add_matrix_delay (concrete)',
        'emitted helpers wsum / broadcast_pre / broadcast_post / reshape2d / flatten1d (symx); einsum library model'],
        bounds=dict(units='1..3 per population, two populations', kinds='matrix (sparse, signed, non-square), scalar weight, '
                    'algebraic and dynamic coupling edges with source and target variables, two Connectivity objects whose coupling operators differ in constants only, self coupling next to a second coupled input, two Connectivity objects between one pair of variables, discrete delay, delay+spread',
                    builds='PopulationTemplate/Connectivity and explicit network (vectorize on/off)'),
        stubs=['numpy library model (einsum ij,ij->i as (W*C).sum(axis=1))'],
        assumptions=['reals for floats', 'dynamic coupling edges: pair states with the same differential equation and the same initial value are the same function of time and share one symbol (uniqueness of ODE solutions)',
                     'zero matrix entries mean no edge'])
    jobs = []
    kinds = ['matrix', 'scalar', 'coupling', 'xcoupling', 'dyncoupling', 'coupling2', 'coupling3', 'coupling-self', 'coupling-2eq', 'same-source', 'spread-wide', 'spread-dde', 'delay+spread', 'spread+delay', 'delay', 'spread', 'delay2', 'spread2']
    n = 4 if tier == 'quick' else 30
    for kind in kinds:
        for i in range(n):
            jobs.append(dict(key=f"pop:{kind}:{seed}:{i}|population", kind=kind, seed=seed * 100 + i, build='population',
                             vectorize=True, spec=None))
            if i < (2 if tier == 'quick' else 10) and kind not in ('coupling', 'xcoupling', 'dyncoupling', 'coupling2', 'coupling3', 'coupling-self', 'coupling-2eq', 'same-source'):
                for vec in (True, False):
                    jobs.append(dict(key=f"pop:{kind}:{seed}:{i}|explicit|vec={vec}", kind=kind, seed=seed * 100 + i,
                                     build='explicit', vectorize=vec, spec=None))
    for kind in ('matrix', 'scalar'):
        for i in range(2 if tier == 'quick' else 8):
            jobs.append(dict(key=f"pop:{kind}:{seed}:{i}|population|node_values", kind=kind, seed=seed * 100 + i,
                             build='population', vectorize=True, spec=None, node_values=True))
    for kind in ('matrix', 'scalar'):
        for i in range(2 if tier == 'quick' else 8):
            jobs.append(dict(key=f"pop:{kind}:{seed}:{i}|population|update_var", kind=kind, seed=seed * 100 + i,
                             build='population', vectorize=True, spec=None, update_var=True))
            jobs.append(dict(key=f"pop:{kind}:{seed}:{i}|population|node_values|shared-population-object", kind=kind,
                             seed=seed * 100 + i, build='population', vectorize=True, spec=None, node_values=True,
                             shared_pop=True))
            jobs.append(dict(key=f"pop:{kind}:{seed}:{i}|population|derived-template", kind=kind, seed=seed * 100 + i,
                             build='population', vectorize=True, spec=None, derive=True))
            jobs.append(dict(key=f"pop:{kind}:{seed}:{i}|population|derive-then-edit-copy", kind=kind, seed=seed * 100 + i,
                             build='population', vectorize=True, spec=None, derive_then_edit=True))
            jobs.append(dict(key=f"pop:{kind}:{seed}:{i}|population|node_values+ordinary-edge", kind=kind,
                             seed=seed * 100 + i, build='population', vectorize=True, spec=None, node_values=True,
                             extra_edge=True))
    if only:
        jobs = [j for j in jobs if only in j['key']]
    for j in jobs:
        pm_ = make_model(j['kind'], j['seed'])
        if j.get('shared_pop'):
            import copy
            pm_.pops['a2'] = copy.deepcopy(pm_.pops['a'])
            fpx = FP(700)
            pm_.pops['a2'].params['li/x'] = [fpx() for _ in range(pm_.pops['a'].n)]
        j['spec'] = explicit_spec(pm_)
    tvjobs.run_tv_jobs(rep, jobs, verbose=verbose, fn=job_fn)
    # run level (harness of C09): the real Euler / Heun kernels drive the emitted function of a population model with two
    # delayed Connectivity objects on one source variable; afterwards every ring buffer holds its source's recorded rows
    from . import c09
    rj = []
    for i in range(2 if tier == 'quick' else 6):
        for heun in (False, True):
            pm = make_model('delay2', seed * 100 + i)
            rj.append(dict(key=f"run-level:pop:delay2:{seed}:{i}|{'heun' if heun else 'euler'}|population", spec=explicit_spec(pm),
                           vectorize=True, heun=heun, steps=4 if tier == 'quick' else 6, solver='heun' if heun else 'euler',
                           pop=('delay2', seed * 100 + i)))
    if only:
        rj = [j for j in rj if only in j['key']]
    tvjobs.run_tv_jobs(rep, rj, verbose=verbose, fn=c09.run_level_job)
    return rep.finish(rule='program = (connectivity kind, population sizes, random sparse signed matrices, build through '
                           'PopulationTemplate/Connectivity or as explicit network); obligations: per unit and state '
                           'variable emitted derivative == reference of the explicit network; population output columns '
                           'carry their unit')
