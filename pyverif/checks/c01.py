"""C01 -- generated vector field equals the model the user wrote (translation validation, NumPy backend)."""
from .. import families, tvjobs
from ..report import Report

FUNCS = ['emitted text of CircuitTemplate.get_run_func (NumPy backend), executed under symx',
         'pyrates.frontend.template.circuit.CircuitTemplate.apply/_group_edges (concrete)',
         'pyrates.ir.circuit.CircuitIR (concrete)', 'pyrates.backend.computegraph.ComputeGraph.to_func (concrete)']


def programs(tier, seed):
    P = []
    P += families.fam_edges_two_nodes(max_edges=2 if tier == 'quick' else 3, n_nodes=2)
    P += families.fam_single_node_chains()
    P += families.fam_fanin_pow()
    P += families.fam_innode_plus_edge()
    P += families.fam_innode_partial_and_multi_input()
    P += families.fam_output_designation()
    P += families.fam_twin_operators()
    P += families.fam_same_name_edge()
    P += families.fam_mixed_nodes(seed, n=8 if tier == 'quick' else 60)
    P += families.fam_names(seed)
    P += families.fam_hierarchy()
    P += families.fam_edge_templates()
    P += families.fam_edge_inputs()
    P += families.fam_equal_values()
    P += families.fam_zero_overrides()
    if tier == 'thorough':
        P += families.fam_edges_two_nodes(max_edges=2, n_nodes=3)
        for s in range(1, 4):
            P += families.fam_mixed_nodes(seed + 100 * s, n=40)
    return P


def run(tier='quick', seed=0, only=None, verbose=False):
    rep = Report('C01', tier, seed, 'translation_validation', functions_encoded=FUNCS,
                 bounds=dict(nodes='<=3 (flat), <=6 (hierarchical)', operators_per_node='<=3', edges='<=5',
                             hierarchy_depth='<=2', backend='default (NumPy)', vectorize='True and False',
                             float_precision='float64'),
                 stubs=['numpy library model (pyverif.libmodels), validated against numpy on this run'],
                 assumptions=['reals for floats', 'denominators != 0', 'models PyRates rejects with an exception '
                              'are outside C01 (C20)', 'program quantifier bounded by the listed families'])
    progs = programs(tier, seed)
    if only:
        progs = [p for p in progs if only in p[0]]
    jobs = []
    # projections inside one vectorized group: default branch selection and the index branch forced by configuration
    for key, spec in families.fam_projections(seed, n=7 if tier == 'quick' else 42):
        if only and only not in key:
            continue
        for ms in (None, 1.0):
            jobs.append(dict(key=f"{key}|vec=True|matrix_sparseness={ms}", spec=spec, vectorize=True, backend='default',
                             compile_kw={} if ms is None else dict(matrix_sparseness=ms), cvc5=(tier == 'thorough')))
        jobs.append(dict(key=f"{key}|vec=False", spec=spec, vectorize=False, backend='default'))
    for key, spec in progs:
        for vec in (True, False):
            jobs.append(dict(key=f"{key}|vec={vec}", spec=spec, vectorize=vec, backend='default', cvc5=(tier == 'thorough')))
    tvjobs.run_tv_jobs(rep, jobs, verbose=verbose)
    # three-level circuits whose mid-level and leaf circuits are ONE template object under several keys, one override on
    # one branch (history harness of C07): the function must be the model of the spec with exactly that override
    from . import c07
    hj = []
    for i in range(2 if tier == 'quick' else 8):
        for vec in (True, False):
            hj.append(dict(key=f"samesub3:{seed}:{i}:shared={bool(i % 2)}|vec={vec}", seed=seed * 1000 + 350 + i,
                           shared=bool(i % 2), hier=2, length=1 + i % 2, vectorize=vec, same_sub=True,
                           spec=c07.base_spec(bool(i % 2), 2, same_sub=True)[0]))
    if only:
        hj = [j for j in hj if only in j['key']]
    tvjobs.run_tv_jobs(rep, hj, verbose=verbose, fn=c07.job_fn)
    return rep.finish(rule='programs = generated ModelSpecs (families F1 chains/fan-in, F2 edge multisets incl. '
                           'parallel edges, F2b mixed node types, F3 hierarchy, F4 adversarial identifiers, FE edge '
                           'templates, FEQ equal values) x vectorize on/off; each compiled by the real pipeline; one '
                           'SMT obligation per declared state variable: emitted d/dt == reference semantics for all '
                           'y, parameters, weights. distinct_nontrivial = distinct (spec, vectorize) pairs with >=1 '
                           'obligation decided.')
