"""C10 -- delayed terms read the true past of the trajectory.

(i) vector-field level: hist is a symbolic history (one uninterpreted function of time per state component); the
    emitted derivative must equal the reference that reads component pos(x) of hist at (time - tau), time = t for
    adaptive solvers and t*dt for fixed steps -- UF congruence forces both the time argument and the component index.
(ii) run level: the real fixed-step kernels feed the real DDEHistory after every step (times (i+1)*dt, copies of y):
    executed under symx with an uninterpreted delayed vector field.
Convergence of the adaptive integrators is outside (DESIGN.md section 9); DDEHistory itself is C19.
"""
from fractions import Fraction as F

import numpy as np
import z3

from .. import families, tv, tvspec, decide, tvdelay, tvjobs, runner, symx
from ..symx import Sym, SArr
from ..spec import build_python
from ..report import Report
from .c01 import FUNCS

DT = F(1, 4)


def job_fn(job):
    spec = job['spec']
    ct = build_python(spec)
    if 'integer-delays' in job['key']:
        # the same delays given as Python integers (time units)
        ct.update_var(edge_vars=[(e.src, e.tgt, {'delay': int(e.delay)}) for e in spec.edges
                                 if e.delay is not None and F(e.delay).denominator == 1])
    tally = decide.Tally()
    try:
        c = tv.compile_template(ct, vectorize=job['vectorize'], step_size=float(DT), solver=job['solver'])
    except tv.CompileError as e:
        return dict(status='compile-raises', error=str(e))
    if job.get('post_args'):
        # the function is a function of its arguments: a delay parameter is given another value than the one it was
        # compiled with (the expected model is the spec with that value)
        args = list(c.args)
        for suffix, val in job['post_args'].items():
            idx = [i for i, k in enumerate(c.keys) if str(k).endswith(suffix)]
            if len(idx) != 1:
                return dict(status='compile-raises', error=f"the argument list {list(c.keys)} has {len(idx)} entries "
                                                           f"for the delay parameter *{suffix}")
            a0 = np.asarray(tv.tv_to_np(args[idx[0]]))
            args[idx[0]] = np.zeros_like(a0, dtype=float) + float(val)
        c.args = tuple(args)
        spec = job['exp_spec']
    adaptive = job['solver'] != 'euler'
    hp = tvdelay.HistPlugin(DT, adaptive)
    if adaptive:
        plugin = hp
        t_sym = symx.real('t')
    else:
        plugin = tvdelay.Composite(tvdelay.RingBufferPlugin(DT), hp)
        t_sym = symx.real('t')      # integer step counter; kept symbolic (only used as t*dt)
    res = tvspec.validate(spec, c, tally, vectorized=job['vectorize'], plugin=plugin, t_sym=t_sym)
    return dict(status='ok', res=res, tally=tally.as_dict(), src=c.src, keys=list(c.keys),
                smap={k: str(v) for k, v in c.smap.items()}, exp_spec=spec if job.get('post_args') else None,
                history=[f"argument *{k} set to {v} after compilation" for k, v in (job.get('post_args') or {}).items()])


def _hist_class(bb, cap):
    """the real DDEHistory; with `cap` its pre-allocated capacity is lowered through a subclass attribute so that the
    buffer grows within a few steps (the growth code itself is the real one)"""
    if not cap:
        return bb.DDEHistory

    class SmallHistory(bb.DDEHistory):
        _INITIAL_CAPACITY = cap
    return SmallHistory


def kernel_job(job):
    """real _solve_euler/_solve_heun + real DDEHistory with an uninterpreted delayed vector field"""
    import builtins
    import pyrates.backend.base.base_backend as bb
    bb.float = lambda x=0.0: x if isinstance(x, Sym) else builtins.float(x)
    n, steps, heun, tau_steps = job['n'], job['steps'], job['heun'], job['tau_steps']
    store = job.get('store', 1)      # sampling_step_size = store * step_size: the history must still be fed on the dt grid
    dt = F(1, 4)
    tau = dt * tau_steps
    tally = decide.Tally()
    out = dict(violations=[], inconclusive=[])
    if job.get('complex'):
        # concrete probe (not solver-decided): the real kernel and the real history on a complex128 state
        conf = _replay_dde(job, None, None)
        tally.obligations += 1
        if conf is not None:
            tally.sat += 1
            tally.sat_confirmed += 1
            out['violations'].append(dict(real_value=str(conf[0]), iterate=str(conf[1]), what=f"fixed-step DDE run with a complex "
                                          f"state ({'heun' if heun else 'euler'}, delay {tau_steps} steps): "
                                          + (f"row {conf[2]} is {conf[0]} on the real kernel, the method-of-steps iterate "
                                             f"is {conf[1]}" if len(conf) > 2 else str(conf[0]))))
        else:
            tally.unsat += 1
        out['tally'] = tally.as_dict()
        return out
    symx.Ctx.cur = symx.Ctx()
    Fs = [symx.UF(f"G{i}", 2 * n + 1) for i in range(n)]      # G_i(step, y, y_delayed)

    def func(step, y, hist, *a):
        yd = hist(symx.as_sym(step) * symx.val(dt) - symx.val(tau))
        args = [symx.lift(step)] + [symx.lift(v) for v in y] + [symx.lift(v) for v in yd]
        return SArr([Sym(Fs[i](*args)) for i in range(n)])
    y0 = [z3.Real(f"y0_{i}") for i in range(n)]
    y = SArr([Sym(v) for v in y0])
    H = _hist_class(bb, job.get('cap'))
    hist = H(SArr([Sym(v) for v in y0]), t0=0.0)
    if job.get('backend', 'base') == 'torch':
        from .c03 import _kernel
        kern = _kernel('torch', False)
        import pyrates.backend.torch.torch_backend as tb
        tb.float = bb.float
    else:
        kern = bb.BaseBackend._solve_heun if heun else bb.BaseBackend._solve_euler
    try:
        rec = kern(func, (hist,), float(dt * steps), float(dt), float(dt * store), y, 0)
    except Exception as e:   # noqa
        # the symbolic run broke down (e.g. a history row that was never written is None in an object array): decide
        # by the float replay on the real kernel and the real history whether the run is wrong
        conf = _replay_dde(job, None, None)
        if conf is not None and conf[1] is not None:
            tally.obligations += 1
            tally.sat += 1
            tally.sat_confirmed += 1
            out['violations'].append(dict(real_value=conf[0], iterate=conf[1], what=f"fixed-step DDE run ({job.get('backend', 'base')} "
                                          f"{'heun' if heun else 'euler'}, delay {tau_steps} steps, history capacity "
                                          f"{job.get('cap', 'default')}): row {conf[2]} is {conf[0]} on the real kernel, the "
                                          f"method-of-steps iterate is {conf[1]} (the symbolic run raised "
                                          f"{type(e).__name__})"))
        else:
            out['inconclusive'].append(dict(what=f"kernel raised under symx: {type(e).__name__}: {e}"))
        out['tally'] = tally.as_dict()
        return out
    # reference: method of steps with constant pre-history; tau is a multiple of dt so no interpolation is needed
    traj = [list(y0)]
    for s in range(steps):
        cur = traj[-1]
        past = traj[s - tau_steps] if s - tau_steps >= 0 else traj[0]
        f1 = [Fs[i](z3.RealVal(s), *cur, *past) for i in range(n)]
        if heun:
            pred = [cur[i] + symx.rv(dt) * f1[i] for i in range(n)]
            f2 = [Fs[i](z3.RealVal(s), *pred, *past) for i in range(n)]
            nxt = [cur[i] + symx.rv(dt) / 2 * (f1[i] + f2[i]) for i in range(n)]
        else:
            nxt = [cur[i] + symx.rv(dt) * f1[i] for i in range(n)]
        traj.append(nxt)
    rec = np.asarray(rec, dtype=object)
    for k in range(rec.shape[0]):
        for i in range(n):
            v, _ = decide.prove_equal(rec[k, i], Sym(traj[k * store][i]), tally=tally)
            if v == 'sat':
                conf = _replay_dde(job, k, i)
                if conf is None:
                    tally.sat_spurious += 1
                    out['inconclusive'].append(dict(what=f"row {k}: solver counterexample not reproduced on floats"))
                    break
                tally.sat_confirmed += 1
                out['violations'].append(dict(real_value=conf[0], iterate=conf[1], what=f"fixed-step DDE run ({job.get('backend', 'base')} {'heun' if heun else 'euler'}, delay {tau_steps} "
                                              f"steps): row {k} is not the method-of-steps iterate with constant "
                                              f"pre-history"))
                break
            elif v == 'unknown':
                out['inconclusive'].append(dict(what='unknown'))
    out['tally'] = tally.as_dict()
    return out


def _replay_dde(job, k, i):
    """float replay on the real kernel and the real DDEHistory with g_j(s, y, yd) = -0.7*yd_j + 0.2*sin(y_j + s) + 0.1*j;
    returns (real, iterate) when they differ"""
    import importlib
    import math
    import pyrates.backend.base.base_backend as bb
    vars(bb).pop('float', None)
    n, steps, heun, tau_steps = job['n'], job['steps'], job['heun'], job['tau_steps']
    store = job.get('store', 1)
    dt = 0.25
    tau = dt * tau_steps

    def g(s, y, yd):
        return np.array([-0.7 * yd[j] + 0.2 * math.sin(y[j] + s) + 0.1 * j for j in range(n)])
    y0 = np.linspace(0.4, 0.9, n)
    cplx = bool(job.get('complex'))
    if cplx:
        def g(s, y, yd):     # noqa
            return np.array([(-0.7 + 0.3j) * yd[j] + 0.2j * y[j] + 0.1 * j + 0.05 * s for j in range(n)])
        y0 = np.linspace(0.4, 0.9, n) + 1j * np.linspace(0.2, 0.5, n)
    try:
        if job.get('backend', 'base') == 'torch':
            import torch
            import pyrates.backend.torch.torch_backend as tb
            importlib.reload(tb)
            vars(tb).pop('float', None)
            hist = _hist_class(bb, job.get('cap'))(y0.copy(), t0=0.0)

            def f_t(step, y, h, *a):
                return torch.as_tensor(g(float(step), y.numpy(), np.asarray(h(float(step) * dt - tau))))
            rec = tb.TorchBackend._solve_euler(f_t, (hist,), dt * steps, dt, dt * store, torch.as_tensor(y0.copy()), 0)
        else:
            hist = _hist_class(bb, job.get('cap'))(y0.copy(), t0=0.0)

            def f_b(step, y, h, *a):
                return g(float(step), y, np.asarray(h(float(step) * dt - tau)))
            kern = bb.BaseBackend._solve_heun if heun else bb.BaseBackend._solve_euler
            rec = kern(f_b, (hist,), dt * steps, dt, dt * store, y0.copy(), 0)
    except Exception as e:   # noqa
        return (f"raised {type(e).__name__}: {e}", None)
    traj = [y0.copy()]
    for s_ in range(steps):
        cur = traj[-1]
        past = traj[s_ - tau_steps] if s_ - tau_steps >= 0 else traj[0]
        f1 = g(float(s_), cur, past)
        if heun:
            f2 = g(float(s_), cur + dt * f1, past)
            traj.append(cur + dt / 2 * (f1 + f2))
        else:
            traj.append(cur + dt * f1)
    if k is None:
        # scan all stored rows (used when the symbolic run of the kernel broke down)
        R = np.asarray(rec, dtype=complex if cplx else float)
        for k_ in range(R.shape[0]):
            for i_ in range(n):
                got, want = (complex if cplx else float)(R[k_, i_]), (complex if cplx else float)(traj[k_ * store][i_])
                if not abs(got - want) <= 1e-9 * max(1.0, abs(want)):
                    return got, want, k_
        return None
    got, want = float(np.asarray(rec)[k, i]), float(traj[k * store][i])
    if abs(got - want) > 1e-9 * max(1.0, abs(want)):
        return got, want
    return None


def run(tier='quick', seed=0, only=None, verbose=False):
    rep = Report('C10', tier, seed, 'translation_validation', functions_encoded=FUNCS + [
        'parser._preprocess_dde_syntax (concrete, both notations)', 'ComputeGraph._get_var_hist / add_var_hist emitted '
        'lines x_hist = hist(t[*dt] - d)[idx] (symx, hist = uninterpreted functions)',
        'CircuitIR._add_edge_buffer DDE branch (concrete)',
        'BaseBackend._solve_euler/_solve_heun, TorchBackend._solve_euler + DDEHistory.update/__call__ (symx, uninterpreted delayed vector field)'],
        bounds=dict(delays_per_variable='<=2', delayed_variables='<=2 + delayed edges', solvers='euler (t*dt) and '
                    'scipy-flagged (t)', kernel='steps <= 6/10, delay 1..3 steps, state dim <= 2'),
        stubs=['hist = vector of uninterpreted functions of time', 'float() inside base_backend = identity on symbols'],
        assumptions=['reals for floats', 'convergence of dopri5/solve_ivp to the DDE solution is NOT claimed',
                     'the JAX fixed-step kernels refuse delayed models (C20 matrix); torch Euler kernel: run level only'])
    progs = families.fam_dde(seed, n=8 if tier == 'quick' else 160)
    edge_progs = families.fam_dde_edges_fixed()
    progs = progs + families.fam_dde_pernode()
    if only:
        progs = [p for p in progs if only in p[0]]
    jobs = []
    for k, s in progs:
        for v in (True, False):
            for solver in ('scipy', 'euler'):
                jobs.append(dict(key=f"{k}|vec={v}|{solver}", spec=s, vectorize=v, solver=solver))
    for k, s in edge_progs:
        if only and only not in k:
            continue
        for v in (True, False):
            jobs.append(dict(key=f"{k}|vec={v}|scipy", spec=s, vectorize=v, solver='scipy'))
    # two delay parameters of one variable with EQUAL declared values; the second one is then called with another value
    for k, (s, s2, post) in families.fam_dde_equal_delays():
        if only and only not in k:
            continue
        for v in (True, False):
            for solver in ('scipy', 'euler'):
                jobs.append(dict(key=f"{k}|vec={v}|{solver}", spec=s, vectorize=v, solver=solver))
                jobs.append(dict(key=f"{k}:called-with-other-delay|vec={v}|{solver}", spec=s, exp_spec=s2, post_args=post,
                                 vectorize=v, solver=solver))
    tvjobs.run_tv_jobs(rep, jobs, verbose=verbose, fn=job_fn)
    kj = []
    for steps in ((4, 6) if tier == 'quick' else (3, 5, 8, 10)):
        for tau_steps in (1, 2, 3):
            for heun in (False, True):
                for n in (1, 2):
                    kj.append(dict(key=f"kernel:steps={steps}:tau={tau_steps}:{'heun' if heun else 'euler'}:n={n}",
                                   steps=steps, tau_steps=tau_steps, heun=heun, n=n))
                    if steps % 2 == 0 and tau_steps >= 2:      # sampling every second step
                        kj.append(dict(key=f"kernel:steps={steps}:tau={tau_steps}:{'heun' if heun else 'euler'}:n={n}:store=2",
                                       steps=steps, tau_steps=tau_steps, heun=heun, n=n, store=2))
                        if not heun:
                            kj.append(dict(key=f"kernel:torch:steps={steps}:tau={tau_steps}:euler:n={n}:store=2", steps=steps,
                                           tau_steps=tau_steps, heun=False, n=n, backend='torch', store=2))
                    if steps >= 4:      # the history buffer grows during the run (capacity 2 -> 4 -> 8)
                        kj.append(dict(key=f"kernel:steps={steps}:tau={tau_steps}:{'heun' if heun else 'euler'}:n={n}:capacity=2",
                                       steps=steps, tau_steps=tau_steps, heun=heun, n=n, cap=2))
                    if not heun:        # the torch backend has its own Euler kernel (and accepts delayed models)
                        kj.append(dict(key=f"kernel:torch:steps={steps}:tau={tau_steps}:euler:n={n}", steps=steps,
                                       tau_steps=tau_steps, heun=False, n=n, backend='torch'))
    # a delay of zero (a delayed term that is switched off reads the newest record) and, as a concrete probe, a complex
    # state vector (the history keeps the dtype of the state)
    for steps in ((4,) if tier == 'quick' else (3, 6)):
        for heun in (False, True):
            for n in (1, 2):
                kj.append(dict(key=f"kernel:steps={steps}:tau=0:{'heun' if heun else 'euler'}:n={n}", steps=steps, tau_steps=0,
                               heun=heun, n=n))
                kj.append(dict(key=f"kernel:complex:steps={steps}:tau=2:{'heun' if heun else 'euler'}:n={n}", steps=steps,
                               tau_steps=2, heun=heun, n=n, complex=True, cap=2 if n == 2 else None))
    if only:
        kj = [j for j in kj if only in j['key']]
    for job, outc in runner.run_jobs(kernel_job, kj, timeout=600):
        if not outc['ok']:
            rep.harness_error(f"{job['key']}: {outc['error']} {outc.get('tb', '')[-400:]}")
            continue
        r = outc['result']
        rep.add_stats(outc['stats'])
        rep.add_tally(r['tally'])
        rep.program(job['key'], sample=dict(key=job['key'], obligations=r['tally']['obligations']) if rep.programs % 11 == 0 else None)
        for v in r['violations']:
            rep.violation(dict(property='C10', key=job['key'], what=f"{job['key']}: {v['what']}"))
        for i in r['inconclusive']:
            rep.inconcl(dict(key=job['key'], **i))
    return rep.finish(rule='program = DDE model (notation, delays, delayed variables, delayed edges) x vectorize x solver '
                           'flag: one obligation per state variable against the reference reading hist(time - tau)[pos(x)]; '
                           'kernel programs = (steps, delay, euler|heun, dim): stored rows vs method-of-steps iterates')
