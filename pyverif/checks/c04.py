"""C04 -- vectorization does not change the model: the emitted function with vectorize=True and with
vectorize=False are each proved equal to the reference semantics per frontend variable (hence to one another)."""
from .. import families, tvjobs
from ..report import Report
from .c01 import FUNCS


def programs(tier, seed):
    P = []
    P += families.fam_vectorization(seed, n=18 if tier == 'quick' else 120, max_per_type=3 if tier == 'quick' else 5)
    P += families.fam_equal_values()
    P += families.fam_edge_templates()
    P += families.fam_innode_partial_and_multi_input()
    P += families.fam_output_designation()
    if tier == 'thorough':
        P += families.fam_vectorization(seed + 1, n=120, max_per_type=4)
        P += families.fam_hierarchy()
    return P


def run(tier='quick', seed=0, only=None, verbose=False):
    rep = Report('C04', tier, seed, 'translation_validation', functions_encoded=FUNCS + [
        'pyrates.ir.circuit.NetworkGraph._vectorize_edges / _add_edge_buffer (concrete; delayed edge groups)',
        'pyrates.ir.node.cache_func / VectorizedNodeIR.extend (concrete)',
        'pyrates.ir.circuit._generate_edge_equation matrix vs indexed branch (concrete)'],
        bounds=dict(node_types='<=2', nodes_per_type='<=3 (quick) / <=5 (thorough)', edges='<= all pairs',
                    patterns='dense, sparse, diagonal, ring, fan-in, random, cross-type', delays='five fixed programs with discrete delays (ring-buffer plugin of C09); more in C09/C11'),
        stubs=['numpy library model'],
        assumptions=['reals for floats', 'denominators != 0', 'at most one edge per (source node, target variable): '
                     'the dropped-edge defect is recorded under C01'])
    progs = programs(tier, seed)
    if only:
        progs = [p for p in progs if only in p[0]]
    jobs = []
    # projections inside one vectorized group: default branch selection and the index branch forced by configuration
    for key, spec in families.fam_projections(seed, n=7 if tier == 'quick' else 42):
        if only and only not in key:
            continue
        for ms in (None, 1.0):
            jobs.append(dict(key=f"{key}|vec=True|matrix_sparseness={ms}", spec=spec, vectorize=True, backend='default',
                             compile_kw={} if ms is None else dict(matrix_sparseness=ms), cvc5=(tier == 'thorough')))
        jobs.append(dict(key=f"{key}|vec=False", spec=spec, vectorize=False, backend='default'))
    for key, spec in progs:
        for vec in (True, False):
            jobs.append(dict(key=f"{key}|vec={vec}", spec=spec, vectorize=vec, backend='default',
                             cvc5=(tier == 'thorough')))
    tvjobs.run_tv_jobs(rep, jobs, verbose=verbose)
    # delayed edges: the grouping of edges per (source group, target group, delay kind) is part of vectorization
    from . import c09
    dj = [dict(key=f"{k}|vec={v}", spec=s, vectorize=v) for k, s in families.fam_discrete_delays_fixed()
          if k.split(':')[1] in ('three-groups', 'mixed-fanout', 'two-delays-one-source', 'same-delay-permuted-sources',
                                 'same-delay-repeated-source', 'parallel-delayed', 'parallel-delayed-scalar-source') for v in (True, False)]
    if only:
        dj = [j for j in dj if only in j['key']]
    tvjobs.run_tv_jobs(rep, dj, verbose=verbose, fn=c09.job_fn)
    # a gamma-kernel edge, a plain delayed edge and an undelayed edge out of one vectorized variable (harness of C11)
    from . import c11
    gj = [dict(key=f"{k}|vec={v}|euler", spec=s, vectorize=v, solver='euler') for k, s in families.fam_gamma_fixed()
          if k.startswith(('F11x:mixed-', 'F11x:kernels-AAB', 'F11x:parallel-kernels')) for v in (True, False)]
    if only:
        gj = [j for j in gj if only in j['key']]
    tvjobs.run_tv_jobs(rep, gj, verbose=verbose, fn=c11.job_fn)
    return rep.finish(rule='programs = generated circuits (1-2 node types x 1..N nodes, weight patterns) compiled with '
                           'vectorize=True and =False; one SMT obligation per frontend state variable and setting: '
                           'emitted derivative == reference semantics for all states/parameters; both settings equal '
                           'the same reference, hence each other. distinct_nontrivial = (spec, vectorize) pairs with '
                           '>=1 decided obligation.')
