"""C20 -- unsupported requests fail loudly instead of returning numbers.

(a) CrossHair on the real guards with symbolic strings (solver dispatch of every backend, reserved names, backend
    argument validation);
(b) the finite matrix backend x solver x vectorize x delay kind (+ sparse flag for Jacobians): every cell runs through
    the real pipeline in a fresh process and is classified {returns, raises}; the expected class is derived from the
    code's own declarations (SUPPORTED_SOLVERS, SUPPORTS_*) and the property text;
(c) malformed variants of a valid model (every path component of every edge / output / input / update misspelt, a
    declaration removed, reserved name, two outputs, cyclic node): must raise, or at least warn where the property
    says so.
(b) and (c) are exhaustive enumerations of finite spaces, not solver verdicts.
"""
import os
import shutil
import warnings
from fractions import Fraction as F

import numpy as np

from .. import runner, tv, ch, families
from .. import expr as X
from ..expr import V
from ..spec import OpSpec, NodeSpec, EdgeSpec, ModelSpec, FP, build_python
from ..report import Report

BACKENDS = ['default', 'torch', 'jax', 'fortran']
SOLVERS = ['euler', 'heun', 'scipy', 'diffrax', 'rk4', 'Euler', 'scipy_dde']
DELAYS = ['none', 'discrete', 'spread', 'past', 'discrete+spread', 'spread+discrete']
ENV_ERRORS = ('f2py compilation', 'meson')


def base_spec(delay_kind):
    fp = FP()
    if delay_kind == 'past':
        e = X.sub(X.call('tanh', X.past('x', V('tau'))), V('x'))
        op = OpSpec('li', [('x', 'de', X.add(e, V('u')))], {'x': ('state', fp()), 'u': ('input', F(0)),
                                                           'tau': ('const', F(1, 2))}, output='x')
    else:
        op = families.op_leaky(fp)
    nodes = {'n0': NodeSpec(['li'], {}), 'n1': NodeSpec(['li'], {('li', 'x'): fp()})}
    kw = {}
    if delay_kind == 'discrete':
        kw = dict(delay=F(1, 2))
    elif delay_kind == 'spread':
        kw = dict(delay=F(1, 2), spread=F(1, 4))
    edges = [EdgeSpec('n0/li/x', 'n1/li/u', F(3, 2), **kw), EdgeSpec('n1/li/x', 'n0/li/u', F(5, 4))]
    if '+' in delay_kind:
        # two delayed edge groups in one network: a ring buffer and a gamma-kernel chain, in either node order
        k1, k2 = delay_kind.split('+')
        kws = dict(discrete=dict(delay=F(1, 2)), spread=dict(delay=F(1, 2), spread=F(1, 4)))
        nodes['n2'] = NodeSpec(['li'], {('li', 'x'): fp()})
        edges = [EdgeSpec('n0/li/x', 'n1/li/u', F(3, 2), **kws[k1]), EdgeSpec('n1/li/x', 'n2/li/u', F(5, 4), **kws[k2]),
                 EdgeSpec('n2/li/x', 'n0/li/u', F(7, 4))]
    return ModelSpec('m', {'li': op}, nodes, edges)


POP_KINDS = {'mdiscrete': 'delay', 'mspread': 'spread', 'mdiscrete+mspread': 'delay+spread', 'mspread+mdiscrete': 'spread+delay'}


def _pop_model(delay_kind):
    """population model whose Connectivity objects carry the delays (ring buffer / gamma kernel, in either order)"""
    from . import c16
    return c16.make_model(POP_KINDS[delay_kind], 1)


def _declared(backend):
    """SUPPORTED_SOLVERS of a backend class, read from the source text (importing torch/jax in the parent process
    would deadlock the forked workers)"""
    import ast, pyrates
    root = os.path.dirname(pyrates.__file__)
    f, cname = dict(default=('base/base_backend.py', 'BaseBackend'), torch=('torch/torch_backend.py', 'TorchBackend'),
                    jax=('jax/jax_backend.py', 'JaxBackend'), fortran=('fortran/fortran_backend.py', 'FortranBackend'))[backend]
    tree = ast.parse(open(os.path.join(root, 'backend', f)).read())
    for n in ast.walk(tree):
        if isinstance(n, ast.ClassDef) and n.name == cname:
            for st in n.body:
                tg = st.target if isinstance(st, ast.AnnAssign) else (st.targets[0] if isinstance(st, ast.Assign) else None)
                if tg is not None and getattr(tg, 'id', None) == 'SUPPORTED_SOLVERS':
                    return tuple(ast.literal_eval(st.value))
    return _declared('default') if backend != 'default' else ()


def _supported(backend):
    from pyrates.backend.base.base_backend import BaseBackend
    from pyrates.backend.torch.torch_backend import TorchBackend
    from pyrates.backend.jax.jax_backend import JaxBackend
    from pyrates.backend.fortran.fortran_backend import FortranBackend
    cls = dict(default=BaseBackend, torch=TorchBackend, jax=JaxBackend, fortran=FortranBackend)[backend]
    return cls


def expected_class(backend, solver, vectorize, delay, sparse=False, jac=False):
    """'raises' | 'returns' from the code's own declarations and the property text"""
    if backend not in ('default', 'numpy', 'torch', 'jax', 'fortran', 'julia', 'matlab'):
        return 'raises'            # a backend that does not exist is not supported
    cls = _supported(backend)
    if vectorize and backend == 'fortran':
        return 'raises'
    if jac:
        if sparse and not cls.SUPPORTS_SPARSE_JACOBIAN:
            return 'raises'
        return 'returns'
    if solver not in cls.SUPPORTED_SOLVERS:
        return 'raises'
    fixed = solver in ('euler', 'heun')
    if 'discrete' in delay and fixed and not cls.SUPPORTS_EDGE_DELAY_BUFFER:
        return 'raises'
    return 'returns'


def cell_job(job):
    if job['backend'] == 'fortran':
        # f2py/meson are missing here: the harness-level stand-in compiles the emitted file with gfortran, so that the
        # cell runs past the tool chain and the guards (and the numbers) are actually exercised
        from .. import f2pystub
        f2pystub.install()
    if job['delay'] in POP_KINDS:
        from . import c16
        ct = c16.build_population(_pop_model(job['delay']))
        out_var = 'a/li/x'
    else:
        spec = base_spec(job['delay'])
        ct = build_python(spec)
        out_var = 'n0/li/x'
    wd = tv.scratch_dir()
    old = os.getcwd()
    os.chdir(wd)
    out = dict(outcome=None, detail='')
    out['expected'] = expected_class(job['backend'], job['solver'], job['vectorize'], job['delay'],
                                     job.get('sparse', False), job.get('jac', False))
    try:
        # history cells: the same solver name is first used where it IS supported, on another backend in this process
        # (a guard that remembers accepted names across backends must not wave the unsupported request through)
        for pb in job.get('pre', ()):
            try:
                with warnings.catch_warnings():
                    warnings.simplefilter('ignore')
                    build_python(base_spec('none')).run(simulation_time=0.5, step_size=0.1, solver=job['solver'], backend=pb,
                                                       vectorize=job['vectorize'], outputs={'o': 'n0/li/x'}, verbose=False,
                                                       float_precision='float64', in_place=False)
            except Exception as e:   # noqa
                out['detail'] += f"[pre {pb}: {type(e).__name__}] "
        with warnings.catch_warnings(record=True) as wlist:
            warnings.simplefilter('always')
            try:
                if job.get('jac'):
                    r = ct.get_jacobian_func('jf', step_size=0.1, backend=job['backend'], vectorize=job['vectorize'],
                                             sparse=job['sparse'], verbose=False, float_precision='float64',
                                             solver='scipy' if job['delay'] == 'past' else 'euler')
                    out['outcome'] = 'returns'
                else:
                    df = ct.run(simulation_time=1.0, step_size=0.1, solver=job['solver'], backend=job['backend'],
                                vectorize=job['vectorize'], outputs={'o': out_var}, verbose=False,
                                float_precision='float64', in_place=False)
                    vals = np.asarray(df.values, dtype=float)
                    out['outcome'] = 'returns'
                    out['detail'] += f"shape={vals.shape} finite={bool(np.all(np.isfinite(vals)))}"
            except Exception as e:   # noqa
                msg = f"{type(e).__name__}: {e}"
                if any(k in msg for k in ENV_ERRORS) and 'gfortran:' not in msg:
                    out['outcome'] = 'env'       # passed every guard, failed at the missing f2py/meson toolchain
                else:
                    out['outcome'] = 'raises'
                out['detail'] += msg[:300]
    finally:
        os.chdir(old)
        shutil.rmtree(wd, ignore_errors=True)
    return out


# ---------------------------------------------------------------------------------------------
# malformed variants
# ---------------------------------------------------------------------------------------------
def _valid_parts():
    from pyrates import OperatorTemplate, NodeTemplate, CircuitTemplate
    op = OperatorTemplate(name='li', path=None, equations=["x' = (u - x)/tau"],
                          variables={'x': 'output(0.5)', 'u': 'input(0.0)', 'tau': 2.0})
    return op


def malformed_job(job):
    from pyrates import OperatorTemplate, NodeTemplate, CircuitTemplate
    kind = job['kind']
    wd = tv.scratch_dir()
    old = os.getcwd()
    os.chdir(wd)
    out = dict(outcome=None, detail='', warned=False)

    def mk_op(name='li', eqs=("x' = (u - x)/tau",), variables=None):
        return OperatorTemplate(name=name, path=None, equations=list(eqs),
                                variables=variables or {'x': 'output(0.5)', 'u': 'input(0.0)', 'tau': 2.0})

    def circuit(edges=None, ops=None, node_ops=None):
        op = ops or mk_op()
        nt = NodeTemplate(name='nt', path=None, operators=node_ops or [op])
        inner = CircuitTemplate('inner', nodes={'n0': nt, 'n1': nt},
                                edges=edges if edges is not None else [('n0/li/x', 'n1/li/u', None, {'weight': 1.5})])
        if job.get('hier'):
            return CircuitTemplate('top', circuits={'c0': inner})
        return inner
    pre = 'c0/' if job.get('hier') else ''
    try:
        with warnings.catch_warnings(record=True) as wlist:
            warnings.simplefilter('always')
            try:
                run_kw = dict(simulation_time=0.5, step_size=0.1, solver='euler', verbose=False, in_place=False,
                              float_precision='float64', vectorize=job['vectorize'])
                if kind == 'edge':
                    ct = CircuitTemplate('c', nodes={'n0': NodeTemplate('nt', path=None, operators=[mk_op()]),
                                                     'n1': NodeTemplate('nt2', path=None, operators=[mk_op()])},
                                         edges=[(job['src'], job['tgt'], None, {'weight': 1.5})])
                    ct.run(outputs={'o': 'n0/li/x'}, **run_kw)
                elif kind == 'output':
                    good = pre + 'n1/li/x'
                    outs = {'dict': {'o': pre + job['path']}, 'list': [pre + job['path']],
                            'dict2': {'g': good, 'o': pre + job['path']}, 'list2': [good, pre + job['path']],
                            'dict2r': {'o': pre + job['path'], 'g': good}, 'list2r': [pre + job['path'], good]}[job['form']]
                    circuit().run(outputs=outs, **run_kw)
                elif kind == 'edge_values':
                    c = circuit()
                    c.apply(edge_values={(pre + job['src'], pre + job['tgt']): {'weight': 3.0}}, vectorize=job['vectorize'],
                            verbose=False, step_size=0.1, backend='default')
                elif kind == 'input':
                    circuit().run(outputs={'o': pre + 'n0/li/x'}, inputs={pre + job['path']: np.ones(5)}, **run_kw)
                elif kind == 'update_var':
                    c = circuit()
                    c.update_var(node_vars={pre + job['path']: 3.0})
                    c.run(outputs={'o': pre + 'n0/li/x'}, **run_kw)
                elif kind == 'node_values':
                    c = circuit()
                    c.apply(node_values={pre + job['path']: 3.0}, vectorize=job['vectorize'], verbose=False,
                            step_size=0.1, backend='default')
                elif kind == 'undeclared':
                    circuit(ops=mk_op(variables={'x': 'output(0.5)', 'u': 'input(0.0)'})).run(
                        outputs={'o': pre + 'n0/li/x'}, **run_kw)
                elif kind == 'undeclared_sibling':
                    # the undeclared name IS declared by another operator of the same node (no edges: both operators are
                    # parsed side by side); operators do not see each other's variables
                    from pyrates import OperatorTemplate as _OT
                    aux = _OT(name='aux', path=None, equations=[f"z' = (w - z)/{job['name']}"],
                              variables={'z': 'variable(0.3)', 'w': 'input(0.0)'})
                    order = [mk_op(), aux] if job.get('first', True) else [aux, mk_op()]
                    circuit(edges=[], node_ops=order).run(outputs={'o': pre + 'n0/li/x'}, **run_kw)
                elif kind == 'reserved':
                    o = mk_op(eqs=(f"x' = (u - x)/tau + {job['name']}",),
                              variables={'x': 'output(0.5)', 'u': 'input(0.0)', 'tau': 2.0, job['name']: 1.0})
                    route = job.get('route', 'default')
                    if route == 'node':           # the value comes from the node template's operator overrides
                        circuit(ops=o, node_ops={o: {job['name']: 3.0}}).run(outputs={'o': pre + 'n0/li/x'}, **run_kw)
                    elif route == 'update_var':
                        c = circuit(ops=o)
                        c.update_var(node_vars={pre + 'n0/li/' + job['name']: 3.0})
                        c.run(outputs={'o': pre + 'n0/li/x'}, **run_kw)
                    elif route == 'node_values':
                        circuit(ops=o).run(outputs={'o': pre + 'n0/li/x'}, node_values={pre + 'n0/li/' + job['name']: 3.0},
                                           **run_kw)
                    else:
                        circuit(ops=o).run(outputs={'o': pre + 'n0/li/x'}, **run_kw)
                elif kind == 'two_outputs':
                    o = mk_op(eqs=("x' = (u - x)/tau", "z' = -z"),
                              variables={'x': 'output(0.5)', 'z': 'output(0.1)', 'u': 'input(0.0)', 'tau': 2.0})
                    circuit(ops=o).run(outputs={'o': pre + 'n0/li/x'}, **run_kw)
                elif kind == 'cycle':
                    o1 = OperatorTemplate(name='p', path=None, equations=["a' = b - a"],
                                          variables={'a': 'output(0.1)', 'b': 'input(0.0)'})
                    o2 = OperatorTemplate(name='q', path=None, equations=["b = 2*a"],
                                          variables={'b': 'output(0.0)', 'a': 'input(0.0)'})
                    nt = NodeTemplate(name='nc', path=None, operators=[o1, o2])
                    CircuitTemplate('c', nodes={'n0': nt}).run(outputs={'o': 'n0/p/a'}, **run_kw)
                elif kind == 'population_value':
                    # a population parameter / a node value for a population that names no variable of its node template
                    from pyrates.frontend.template.population import PopulationTemplate, Connectivity
                    nt = NodeTemplate(name='nt', path=None, operators=[mk_op()])
                    params = {job['path']: [1.5, 2.5, 3.5]} if job['route'] == 'params' else {}
                    pop = PopulationTemplate(name='a', node=nt, n=3, params=params)
                    c = CircuitTemplate('pm', populations={'a': pop},
                                        connections=[Connectivity(source='a/li/x', target='a/li/u', weights=np.eye(3) * 0.5)])
                    extra = {} if job['route'] == 'params' else dict(node_values={'a/' + job['path']: 3.0})
                    c.run(outputs={'o': 'a/li/x'}, **run_kw, **extra)
                elif kind == 'edge_op_values':
                    # node-level value for an operator that does not exist
                    nt = NodeTemplate(name='nt', path=None, operators={mk_op(): {}})
                    c = CircuitTemplate('c', nodes={'n0': nt})
                    c.apply(node_values={'n0/lix/tau': 3.0}, verbose=False, step_size=0.1, backend='default',
                            vectorize=job['vectorize'])
                out['outcome'] = 'returns'
            except Exception as e:   # noqa
                out['outcome'] = 'raises'
                out['detail'] = f"{type(e).__name__}: {e}"[:300]
            out['warned'] = any('PyRates' in type(w.message).__name__ or 'not' in str(w.message).lower()
                                for w in wlist)
            out['warnings'] = [f"{type(w.message).__name__}: {w.message}"[:160] for w in wlist][:4]
    finally:
        os.chdir(old)
        shutil.rmtree(wd, ignore_errors=True)
    return out


def misspellings(path):
    parts = path.split('/')
    out = []
    for i in range(len(parts)):
        p = list(parts)
        p[i] = p[i] + 'z'
        out.append(('/'.join(p), i))
    return out


def malformed_jobs(tier):
    J = []
    for vec in (True, False):
        for which in ('src', 'tgt'):
            for bad, i in misspellings('n0/li/x' if which == 'src' else 'n1/li/u'):
                J.append(dict(kind='edge', vectorize=vec, src=bad if which == 'src' else 'n0/li/x',
                              tgt=bad if which == 'tgt' else 'n1/li/u', must='raise',
                              key=f"edge:{which}:component{i}:vec={vec}"))
        for hier in (False, True):
            for form in ('dict', 'list', 'dict2', 'list2', 'dict2r', 'list2r'):
                for bad, i in misspellings('n0/li/x'):
                    J.append(dict(kind='output', vectorize=vec, hier=hier, form=form, path=bad, must='raise',
                                  key=f"output:{form}:component{i}:hier={hier}:vec={vec}"))
            if not hier:
                for which in ('src', 'tgt'):
                    for bad, i in misspellings('n0/li/x' if which == 'src' else 'n1/li/u'):
                        J.append(dict(kind='edge_values', vectorize=vec, hier=hier, must='warn',
                                      src=bad if which == 'src' else 'n0/li/x', tgt=bad if which == 'tgt' else 'n1/li/u',
                                      key=f"edge_values:{which}:component{i}:vec={vec}"))
            for bad, i in misspellings('n0/li/u'):
                J.append(dict(kind='input', vectorize=vec, hier=hier, path=bad, must='warn',
                              key=f"input:component{i}:hier={hier}:vec={vec}"))
            for bad, i in misspellings('n0/li/tau'):
                J.append(dict(kind='update_var', vectorize=vec, hier=hier, path=bad, must='warn',
                              key=f"update_var:component{i}:hier={hier}:vec={vec}"))
                J.append(dict(kind='node_values', vectorize=vec, hier=hier, path=bad,
                              must='raise' if i == 1 else 'warn',
                              key=f"node_values:component{i}:hier={hier}:vec={vec}"))
        J.append(dict(kind='undeclared', vectorize=vec, must='raise', key=f"undeclared-variable:vec={vec}"))
        for nm in ('tau', 'u'):
            for first in (True, False):
                J.append(dict(kind='undeclared_sibling', vectorize=vec, must='raise', name=nm, first=first,
                              key=f"undeclared-variable-declared-by-sibling-operator:{nm}:sibling-first={first}:vec={vec}"))
        for name in ('y', 'dy', 'pi', 'E', 'beta', 'exp', 'x_buffer', 'a_idx', 'source_idx'):
            J.append(dict(kind='reserved', vectorize=vec, name=name, must='raise', key=f"reserved:{name}:vec={vec}"))
            # the same declaration with a value for that variable supplied from outside the operator
            for route in ('node', 'update_var', 'node_values'):
                if tier == 'thorough' or name in ('E', 'pi', 'source_idx', 'x_buffer', 'y'):
                    J.append(dict(kind='reserved', vectorize=vec, name=name, must='raise', route=route,
                                  key=f"reserved:{name}:value-from-{route}:vec={vec}"))
        if vec:
            for route in ('params', 'node_values'):
                for bad in ('lix/tau', 'li/tauu'):
                    J.append(dict(kind='population_value', vectorize=True, must='warn', route=route, path=bad,
                                  key=f"population-value:{route}:{bad}"))
        J.append(dict(kind='two_outputs', vectorize=vec, must='raise', key=f"two-outputs:vec={vec}"))
        J.append(dict(kind='cycle', vectorize=vec, must='raise', key=f"cyclic-node:vec={vec}"))
        J.append(dict(kind='edge_op_values', vectorize=vec, must='raise', key=f"node-value-unknown-operator:vec={vec}"))
    return J


def run(tier='quick', seed=0, only=None, verbose=False):
    from .. import findings
    rep = Report('C20', tier, seed, 'other',
                 functions_encoded=['BaseBackend/TorchBackend/JaxBackend/FortranBackend._solve + _validate_solver '
                                    '(CrossHair, symbolic solver string)', 'operator.check_vname (CrossHair)',
                                    'CircuitTemplate._validate_backend_args (CrossHair)',
                                    'whole pipeline per configuration cell / malformed variant (concrete)'],
                 bounds=dict(strings='|solver| <= 7, |backend| <= 7, name parts <= 2 chars around each reserved part',
                             matrix=f"{BACKENDS} x {SOLVERS} x vectorize x {DELAYS}; Jacobian: backends x sparse x "
                                    f"vectorize", malformed='each path component of each edge endpoint / output / input '
                                                            '/ update misspelt; flat and one hierarchy level'),
                 stubs=['solver kernels replaced by recording stubs in the dispatch harnesses',
                        'jnp.asarray -> identity in the JAX dispatch harness'],
                 assumptions=['the f2py/meson tool chain is absent: a Fortran cell that passes every guard ends in the '
                              'f2py RuntimeError and is classified as having passed the guards',
                              'matrix and malformed variants are finite enumerations (exhaustive), not solver verdicts'])
    # (a) ------------------------------------------------------------------------------------------------
    if not only or 'crosshair' in only:
        ch.consume(rep, 'pyverif.chh.c20_guards', timeout=90 if tier == 'quick' else 300)

    # (b) ------------------------------------------------------------------------------------------------
    cells = []
    for b in BACKENDS:
        for s in SOLVERS:
            for v in (True, False):
                for d in DELAYS:
                    cells.append(dict(key=f"cell:{b}:{s}:vec={v}:{d}", backend=b, solver=s, vectorize=v, delay=d))
            # delays carried by Connectivity objects between populations (always vectorized)
            if b != 'fortran':
                for d in POP_KINDS:
                    cells.append(dict(key=f"cell:{b}:{s}:vec=True:{d}", backend=b, solver=s, vectorize=True, delay=d))
    # histories: an unsupported (backend, solver) request AFTER the same solver ran legally on the backends that support it
    # (fortran is left out as a predecessor: its tool chain is a stand-in here)
    for b in BACKENDS:
        for s in SOLVERS:
            pre = [pb for pb in BACKENDS if pb not in (b, 'fortran') and s in _declared(pb)]
            if s not in _declared(b) and pre:
                for v in ((True, False) if b != 'fortran' else (False,)):
                    cells.append(dict(key=f"cell-after:{'+'.join(pre)}:{b}:{s}:vec={v}:none", backend=b, solver=s, vectorize=v,
                                      delay='none', pre=pre))
    # backend names that do not exist (one of them a former PyRates backend)
    for b in ('tensorflow', 'nunpy'):
        for v in (True, False):
            cells.append(dict(key=f"cell:{b}:euler:vec={v}:none", backend=b, solver='euler', vectorize=v, delay='none'))
    for b in BACKENDS:
        for sp in (False, True):
            for v in (True, False):
                for d in ('none', 'past'):
                    cells.append(dict(key=f"jac:{b}:sparse={sp}:vec={v}:{d}", backend=b, solver='euler', vectorize=v,
                                      delay=d, sparse=sp, jac=True))
    if only:
        cells = [c for c in cells if only in c['key']]
    n_ok = 0
    for job, outc in runner.run_jobs(cell_job, cells, timeout=600):
        if not outc['ok']:
            rep.harness_error(f"{job['key']}: {outc['error']}")
            continue
        r = outc['result']
        exp = r['expected']     # computed in the worker: importing torch/jax in the parent would deadlock forked workers
        rep.program(job['key'], sample=dict(cell=job['key'], expected=exp, observed=r['outcome'], detail=r['detail'][:120])
                    if rep.programs % 31 == 0 else None)
        rep.section('matrix', cells=1, **{f"{exp}->{r['outcome']}": 1})
        if r['outcome'] == 'env':
            # the missing f2py tool chain stops the run before the guard in question can be reached
            rep.inconcl(dict(key=job['key'], what='f2py/meson missing: cell stops at compilation'))
        elif exp == 'raises' and r['outcome'] == 'returns':
            rec = dict(property='C20', key=job['key'], kind='unsupported-not-refused',
                       what=f"{job['key']}: unsupported combination does not raise (outcome {r['outcome']}: {r['detail']})")
            rep.violation(rec, findings.attribute('C20', dict(job, spec=base_spec(job['delay'] if job['delay'] not in POP_KINDS else 'none')), rec))
        else:
            n_ok += 1
            if exp == 'returns' and r['outcome'] == 'raises':
                # a supported combination that fails loudly is not a C20 violation; recorded for the reader
                rep.inconcl(dict(key=job['key'], what=f"supported combination raises: {r['detail'][:200]}"))
    # (c) ------------------------------------------------------------------------------------------------
    mj = malformed_jobs(tier)
    if only:
        mj = [j for j in mj if only in j['key']]
    for job, outc in runner.run_jobs(malformed_job, mj, timeout=300):
        if not outc['ok']:
            rep.harness_error(f"{job['key']}: {outc['error']} {outc.get('tb', '')[-300:]}")
            continue
        r = outc['result']
        rep.program(job['key'], sample=dict(variant=job['key'], must=job['must'], observed=r['outcome'],
                                            warned=r['warned'], detail=r['detail'][:120]) if rep.programs % 23 == 0 else None)
        rep.section('malformed', variants=1, **{f"{job['must']}->{r['outcome']}{'+warn' if r['warned'] else ''}": 1})
        bad = (job['must'] == 'raise' and r['outcome'] != 'raises') or \
              (job['must'] == 'warn' and r['outcome'] != 'raises' and not r['warned'])
        if bad:
            rec = dict(property='C20', key=job['key'], kind='malformed', job={k: v for k, v in job.items()},
                       what=f"{job['key']}: malformed request is accepted silently (outcome {r['outcome']}, warnings "
                            f"{r.get('warnings')})")
            rep.violation(rec, findings.attribute('C20', job, rec))
        else:
            n_ok += 1
    rep.extra['discharged_other'] = n_ok
    return rep.finish(rule='(a) CrossHair harness per guard (symbolic strings); (b) one program per configuration cell, '
                           'classified against the class derived from SUPPORTED_SOLVERS / SUPPORTS_* declarations; (c) one '
                           'program per malformed variant. distinct_nontrivial = distinct cells/variants/harnesses.',
                      exhaustive=True,
                      extra_coverage=dict(explanation='CrossHair decides the string guards for all strings within the '
                                                      'length bound; the configuration matrix and the malformed variants '
                                                      'are exhaustively enumerated finite spaces executed against the '
                                                      'real pipeline'))
