"""C05 -- the equation language means what its arithmetic says.

(a) generated expression trees, rendered with surface variation, become one-equation operators; the emitted function
    is proved equal to the direct evaluation of the tree (SMT, all argument values);
(b) the same expression through the other path, ComputeGraph.eval_node (lambdified sympy callables run on symbols);
(c) CrossHair on the pure string helpers (split_equation / lhs forms, unique-label generation).
"""
import random
from fractions import Fraction as F

import numpy as np
import z3

from .. import expr as X, symx, decide, runner, tv, tvspec, refsem, ch
from ..expr import V, C
from ..spec import OpSpec, NodeSpec, EdgeSpec, ModelSpec, FP, build_python
from ..report import Report

UNARY = ['exp', 'sin', 'cos', 'tan', 'tanh', 'sinh', 'cosh', 'arctan', 'sigmoid', 'absv', 'sign', 'log', 'sqrt']
BINARY_F = ['maxi', 'mini']


def gen_expr(rnd, depth, names, allow_div=True):
    if depth == 0 or rnd.random() < 0.2:
        r = rnd.random()
        if r < 0.7:
            return V(rnd.choice(names))
        if r < 0.85:
            return C(rnd.choice([2, 3, F(1, 2), F(5, 4), 4, F(1, 8)]))
        return ('c', rnd.choice(['pi', 'E']))
    r = rnd.random()
    if r < 0.5:
        op = rnd.choice('++-**/' if allow_div else '++-**')
        return (op, gen_expr(rnd, depth - 1, names, allow_div), gen_expr(rnd, depth - 1, names, allow_div))
    if r < 0.6:
        return X.neg(gen_expr(rnd, depth - 1, names, allow_div))
    if r < 0.7:
        return X.pw(gen_expr(rnd, depth - 1, names, allow_div), rnd.choice([2, 3, 2, -1]))
    def arg():
        # a call whose arguments are all literals is folded by the parser before the function table is consulted
        # (NameError for the PyRates-specific names): loud, and outside this family
        for _ in range(20):
            a = gen_expr(rnd, depth - 1, names, allow_div)
            if X.variables(a):
                return a
        return V(rnd.choice(names))
    if r < 0.93:
        return X.call(rnd.choice(UNARY), arg())
    return X.call(rnd.choice(BINARY_F), arg(), arg())


import math
_PI = F(math.pi)


def _fix_consts(e):
    """('c','pi') placeholders -> rendered as the name, evaluated as the float pi"""
    return e


# patch rendering/evaluation of named constants
_orig_fmt = X.fmt_const


def _fmt(fr, style=0):
    if fr in ('pi', 'E'):
        return fr
    return _orig_fmt(fr, style)


X.fmt_const = _fmt


class Dom(refsem.SymDom):
    def const(self, fr):
        if fr == 'pi':
            return symx.val(math.pi)
        if fr == 'E':
            return symx.val(1).exp()         # exact: the term exp(1)
        return super().const(fr)


NAME_POOLS = [
    ['a', 'b', 'c', 'x', 'u'],
    ['r', 'rr', 'r_in', 'x', 'r2'],
    ['k', 'k1', 'kk', 'xk', 'k_x'],
    ['v', 'va', 'av', 'x', 'v_a'],
    ['tau', 'ta', 'au', 'x', 'tau2'],
]


def make_program(seed, idx, depth):
    rnd = random.Random(seed * 100003 + idx)
    names = NAME_POOLS[idx % len(NAME_POOLS)]
    state = names[3]
    e = gen_expr(rnd, depth, names)
    style = dict(space=rnd.choice([0, 1]), pow=rnd.choice(['^', '**']), parens=rnd.choice([0, 0, 1]),
                 cstyle=rnd.choice([0, 1, 2]))
    fp = FP()
    vars_ = {}
    for n in names:
        if n == state:
            vars_[n] = ('state', fp())
        elif n == names[4]:
            vars_[n] = ('input', fp())
        else:
            vars_[n] = ('const', fp())
    op = OpSpec('o1', [(state, 'de', e)], vars_, output=state, style=style,
                de_notation=rnd.choice(['prime', 'ddt']))
    spec = ModelSpec('m', {'o1': op}, {'n0': NodeSpec(['o1'], {})}, [], note=f"expr depth<={depth}")
    return spec, e, state


def _calls_inside(e, fname):
    k = e[0]
    if k == 'call':
        return e[1] == fname or any(_calls_inside(a, fname) for a in e[2])
    if k in '+-*/':
        return _calls_inside(e[1], fname) or _calls_inside(e[2], fname)
    if k in ('neg', '^'):
        return _calls_inside(e[1], fname)
    return False


def _zero(e):
    """structurally zero: a - a, and products / quotients / negations of such a term"""
    k = e[0]
    if k == '-':
        return e[1] == e[2]
    if k == '*':
        return _zero(e[1]) or _zero(e[2])
    if k in ('/', 'neg', '^'):
        return _zero(e[1])
    return False


def _literal(e):
    k = e[0]
    if k == 'c' or _zero(e) or (k == '/' and e[1] == e[2]):       # (a / a folds to 1)
        return True
    if k in '+-*/':
        return _literal(e[1]) and _literal(e[2])
    if k in ('neg', '^'):
        return _literal(e[1])
    if k == 'call':
        return all(_literal(a) for a in e[2])
    return False


def _degenerate(e):
    """a quotient whose denominator is identically zero (r2 - r2), or a call whose arguments reduce to literals
    (absv((v - v)*v)): sympy folds both before PyRates sees them; neither is part of the generated grammar.  Purely
    structural (no computer algebra in the harness)."""
    k = e[0]
    if k == '/' and _zero(e[2]):
        return 'divides by an expression that is identically zero'
    if k == 'call':
        if all(_literal(a) for a in e[2]):
            return 'a function is called on arguments that reduce to literals'
        return next((r for r in (_degenerate(a) for a in e[2]) if r), None)
    if k in '+-*/':
        return _degenerate(e[1]) or _degenerate(e[2])
    if k in ('neg', '^'):
        return _degenerate(e[1])
    return None


def _directly_nested(e):
    """f(... f(...) ...): a call of f somewhere inside an argument of a call of f (directly, or behind a sign or an
    arithmetic operation)"""
    k = e[0]
    if k == 'call':
        for a in e[2]:
            if _calls_inside(a, e[1]):
                return True
        return any(_directly_nested(a) for a in e[2])
    if k in '+-*/':
        return _directly_nested(e[1]) or _directly_nested(e[2])
    if k in ('neg', '^'):
        return _directly_nested(e[1])
    return False


def expr_job(job):
    spec, e, state = make_program(job['seed'], job['idx'], job['depth'])
    out = dict(eq=spec.ops['o1'].eq_strings()[0], violations=[], inconclusive=[], src='')
    tally = decide.Tally()
    # monkey-patch the reference domain for named constants
    refsem_dom = Dom()
    ct = build_python(spec)
    try:
        c = tv.compile_template(ct, vectorize=job['vectorize'])
    except tv.CompileError as ex:
        msg = str(ex)
        out['compile_error'] = msg
        out['tally'] = tally.as_dict()
        return out
    out['src'] = c.src
    # run TV with the custom domain: temporarily replace SymDom
    orig = refsem.SymDom
    refsem.SymDom = Dom
    try:
        res = tvspec.validate(spec, c, tally, vectorized=job['vectorize'])
    finally:
        refsem.SymDom = orig
    out['violations'] += res['violations']
    out['inconclusive'] += res['inconclusive']
    out['obligations'] = res['obligations']

    # (b) eval_node path ---------------------------------------------------------------------
    try:
        from pyrates.backend.parser import ExpressionParser
        from pyrates.backend.computegraph import ComputeGraph
        op = spec.ops['o1']
        rhs = op.eq_strings()[0].split('=', 1)[1].strip()
        args = {}
        for n, (kind, val) in op.vars.items():
            args[n] = {'vtype': 'constant', 'value': np.asarray(float(val)), 'shape': (), 'dtype': 'float64'}
        args['zz'] = {'vtype': 'state_var', 'value': np.asarray(0.0), 'shape': (), 'dtype': 'float64'}
        cg = ComputeGraph(backend='default')
        p = ExpressionParser(expr_str=f"zz = {rhs}", args=args, cg=cg)
        p.parse_expr()
        syms = {n: symx.real(f"v_{n}") for n in op.vars}
        for n in op.vars:
            try:
                cg.get_var(n)._value = syms[n]
            except Exception:   # noqa  variable vanished from the graph (cancelled by sympy)
                pass
        symx.Ctx.cur = symx.Ctx()
        node = cg.var_updates['non-DEs']['zz']
        got = cg.eval_node(node)
        pc = list(symx.Ctx.cur.pc)
        ref = X.evaluate(e, lambda n: syms[n], refsem_dom)
        if isinstance(got, np.ndarray):
            got = got.reshape(-1)[0] if got.size == 1 else got
        v, model = decide.prove_equal(got, ref, pc=pc, tally=tally)
        out['eval_verdict'] = v
        if v == 'sat':
            dis = decide.numeric_disagreement(got, ref, model, pc=pc)
            if dis is not None:
                env, gv, rv_ = dis
                # replay: real eval_node on floats
                cg2 = ComputeGraph(backend='default')
                args2 = {n: {'vtype': 'constant', 'value': np.asarray(env.get(f"v_{n}", 0.5)), 'shape': (),
                             'dtype': 'float64'} for n in op.vars}
                args2['zz'] = {'vtype': 'state_var', 'value': np.asarray(0.0), 'shape': (), 'dtype': 'float64'}
                ExpressionParser(expr_str=f"zz = {rhs}", args=args2, cg=cg2).parse_expr()
                real = float(np.asarray(cg2.eval_node(cg2.var_updates['non-DEs']['zz'])).reshape(-1)[0])
                if abs(real - rv_) > 1e-7 * max(1, abs(rv_)):
                    tally.sat_confirmed += 1
                    out['violations'].append(dict(kind='eval-node-value', what=f"eval_node('{rhs}') = {real}, arithmetic "
                                                  f"value is {rv_}", env=env))
                else:
                    tally.sat_spurious += 1
                    out['inconclusive'].append(dict(kind='eval-sat-not-reproduced', what=rhs))
            else:
                tally.sat_spurious += 1
                out['inconclusive'].append(dict(kind='eval-sat-not-reproduced', what=rhs))
        elif v == 'unknown':
            out['inconclusive'].append(dict(kind='solver-unknown', what='eval_node ' + rhs))
    except symx.Unsupported as ex:
        out['inconclusive'].append(dict(kind='engine', what=f"eval_node path: {ex}"))
    except Exception as ex:   # noqa
        out['inconclusive'].append(dict(kind='engine', what=f"eval_node path raised {type(ex).__name__}: {ex}"))
    out['tally'] = tally.as_dict()
    return out


# ---------------------------------------------------------------------------------------------
# sequences of expressions evaluated in ONE process (direct-evaluation path), symbolic exponents
# ---------------------------------------------------------------------------------------------
SEQ_NAMES = ['alpha', 'b', 'c', 'd', 'g']
SEQ_GROUPS = [
    # every group: expressions whose operations have the same top-level form over sub-results of different length
    ['alpha^(b*c)', 'alpha^(b*c*d*g)'],
    ['alpha^(b+c)', 'alpha^(b+c+d+g)'],
    ['(b*c)^alpha', '(b*c*d*g)^alpha'],
    ['g^(alpha*b)', 'g^(b*c*d*alpha)', '(alpha*b)^g'],
    ['alpha^sin(b)', 'alpha^sin(b*c*d*g)'],
]


def seq_job(job):
    """the expressions of job['seq'] are parsed and evaluated one after the other in this process (eval_node on symbols);
    each value must be what Python's own arithmetic gives for the text (x**y with a symbolic y is an uninterpreted
    pow(x, y) on both sides), whatever was evaluated before"""
    from pyrates.backend.parser import ExpressionParser
    from pyrates.backend.computegraph import ComputeGraph
    out = dict(violations=[], inconclusive=[], verdicts=[])
    tally = decide.Tally()
    for pos, rhs in enumerate(job['seq']):
        try:
            args = {n: {'vtype': 'constant', 'value': np.asarray(0.5 + 0.25 * i), 'shape': (), 'dtype': 'float64'}
                    for i, n in enumerate(SEQ_NAMES)}
            args['zz'] = {'vtype': 'state_var', 'value': np.asarray(0.0), 'shape': (), 'dtype': 'float64'}
            cg = ComputeGraph(backend='default')
            ExpressionParser(expr_str=f"zz = {rhs}", args=args, cg=cg).parse_expr()
            syms = {n: symx.real(f"v_{n}") for n in SEQ_NAMES}
            for n in SEQ_NAMES:
                try:
                    cg.get_var(n)._value = syms[n]
                except Exception:   # noqa
                    pass
            symx.Ctx.cur = symx.Ctx()
            got = cg.eval_node(cg.var_updates['non-DEs']['zz'])
            pc = list(symx.Ctx.cur.pc)
            if isinstance(got, np.ndarray):
                got = got.reshape(-1)[0] if got.size == 1 else got
            ref = eval(rhs.replace('^', '**'), {'__builtins__': {}}, dict(syms, sin=lambda x: x.sin()))
            v, model = decide.prove_equal(got, ref, pc=pc, tally=tally)
            out['verdicts'].append(v)
            if v == 'sat':
                # replay on floats: the same sequence in a fresh interpreter state is this process itself - evaluate the
                # real graph on numbers and compare with Python's arithmetic
                import math
                env = {n: 1.25 + 0.5 * i for i, n in enumerate(SEQ_NAMES)}
                cg2 = ComputeGraph(backend='default')
                a2 = {n: {'vtype': 'constant', 'value': np.asarray(env[n]), 'shape': (), 'dtype': 'float64'} for n in SEQ_NAMES}
                a2['zz'] = {'vtype': 'state_var', 'value': np.asarray(0.0), 'shape': (), 'dtype': 'float64'}
                ExpressionParser(expr_str=f"zz = {rhs}", args=a2, cg=cg2).parse_expr()
                real = float(np.asarray(cg2.eval_node(cg2.var_updates['non-DEs']['zz'])).reshape(-1)[0])
                want = float(eval(rhs.replace('^', '**'), {'__builtins__': {}}, dict(env, sin=math.sin)))
                if abs(real - want) > 1e-9 * max(1.0, abs(want)):
                    tally.sat_confirmed += 1
                    out['violations'].append(dict(kind='eval-node-sequence', env=env, sequence=list(job['seq'][:pos + 1]),
                                                  what=f"eval_node('{rhs}') = {real} after evaluating {list(job['seq'][:pos])} "
                                                       f"in the same process; its arithmetic value is {want}"))
                else:
                    tally.sat_spurious += 1
                    out['inconclusive'].append(dict(kind='eval-sat-not-reproduced', what=rhs))
            elif v == 'unknown':
                out['inconclusive'].append(dict(kind='solver-unknown', what='eval_node ' + rhs))
        except symx.Unsupported as ex:
            out['inconclusive'].append(dict(kind='engine', what=f"eval_node sequence: {ex}"))
        except Exception as ex:   # noqa
            out['inconclusive'].append(dict(kind='engine', what=f"eval_node sequence `{rhs}` raised {type(ex).__name__}: {ex}"))
    out['tally'] = tally.as_dict()
    return out


def seq_jobs(tier):
    import itertools
    jobs = []
    for gi, grp in enumerate(SEQ_GROUPS):
        perms = list(itertools.permutations(grp)) if (tier == 'thorough' or len(grp) == 2) else [tuple(grp), tuple(grp[::-1])]
        for pi_, seq in enumerate(perms):
            jobs.append(dict(key=f"eval-sequence:{gi}:{pi_}", seq=list(seq)))
    allx = [x for grp in SEQ_GROUPS for x in grp]
    jobs.append(dict(key='eval-sequence:all', seq=allx))
    jobs.append(dict(key='eval-sequence:all-reversed', seq=allx[::-1]))
    return jobs


# ---------------------------------------------------------------------------------------------
# index helpers (direct-evaluation path): vectors / matrices of symbols, every helper and every position
# ---------------------------------------------------------------------------------------------
def index_cases(nv=4, shape=(2, 3)):
    """(rhs text, reference builder) over a vector v of length nv and a matrix M of the given shape"""
    R, Cn = shape
    C_ = []
    for k in range(nv):
        C_.append((f"index(v, {k})", lambda v, M, k=k: v[k]))
    for a in range(nv):
        for b in range(a + 1, nv + 1):
            C_.append((f"index_range(v, {a}, {b})", lambda v, M, a=a, b=b: v[a:b]))
    for i in range(R):
        for j in range(Cn):
            C_.append((f"index_2d(M, {i}, {j})", lambda v, M, i=i, j=j: M[i, j]))
        C_.append((f"index_axis(M, {i}, 0)", lambda v, M, i=i: M[i, :]))
    for j in range(Cn):
        C_.append((f"index_axis(M, {j}, 1)", lambda v, M, j=j: M[:, j]))
    C_.append(("index_axis(M)", lambda v, M: M))
    if nv >= 3:
        C_.append(("index(v, i)", lambda v, M: v[2]))                       # index held by a variable (i = 2)
    # composite expressions: only where the addressed parts exist and their shapes agree
    if nv >= 3 and Cn >= 3:
        C_.append(("index(v, 1)*index_2d(M, 0, 2) - index(v, i)", lambda v, M: v[1] * M[0, 2] - v[2]))
    if nv >= 4:
        C_.append(("index_range(v, 0, 2)*index(v, 3)", lambda v, M: v[0:2] * v[3]))
    if nv >= 3 and R == 2:
        C_.append(("index_axis(M, 0, 1) + index_range(v, 1, 3)", lambda v, M: M[:, 0] + v[1:3]))
    if nv >= 4 and R >= 2 and Cn == 3:
        C_.append(("index_range(v, 1, 4)^2 - index_axis(M, 1, 0)", lambda v, M: v[1:4] * v[1:4] - M[1, :]))
    return C_


def index_job(job):
    from pyrates.backend.parser import ExpressionParser
    from pyrates.backend.computegraph import ComputeGraph
    nv, shape = job['nv'], tuple(job['shape'])
    tally = decide.Tally()
    out = dict(violations=[], inconclusive=[], n=0)
    for rhs, ref_fn in index_cases(nv, shape):
        v = symx.symarray('v', nv)
        M = symx.symarray('M', shape)
        args = {'v': {'vtype': 'constant', 'value': np.arange(float(nv)) + 1, 'shape': (nv,), 'dtype': 'float64'},
                'M': {'vtype': 'constant', 'value': np.arange(float(shape[0] * shape[1])).reshape(shape) + 11,
                      'shape': shape, 'dtype': 'float64'},
                'i': {'vtype': 'constant', 'value': np.asarray(2), 'shape': (), 'dtype': 'int32'},
                'zz': {'vtype': 'state_var', 'value': np.asarray(0.0), 'shape': (), 'dtype': 'float64'}}
        try:
            cg = ComputeGraph(backend='default')
            ExpressionParser(expr_str=f"zz = {rhs}", args=args, cg=cg).parse_expr()
            conc = np.asarray(cg.eval_node(cg.var_updates['non-DEs']['zz']), dtype=float)
            for n_, val in (('v', v), ('M', M)):
                try:
                    cg.get_var(n_)._value = val
                except Exception:   # noqa  (variable not used by this expression)
                    pass
            symx.Ctx.cur = symx.Ctx()
            got = np.asarray(cg.eval_node(cg.var_updates['non-DEs']['zz']), dtype=object)
            pc = list(symx.Ctx.cur.pc)
        except symx.Unsupported as ex:
            out['inconclusive'].append(dict(kind='engine', what=f"{rhs}: {ex}"))
            continue
        except Exception as ex:   # noqa
            out['violations'].append(dict(kind='index-helper-raises', what=f"direct evaluation of `{rhs}` raises "
                                          f"{type(ex).__name__}: {ex}"))
            continue
        ref = np.asarray(ref_fn(v, M), dtype=object)
        # concrete reference on the declared values as well (replay of any disagreement)
        cref = np.asarray(ref_fn(np.arange(float(nv)) + 1, np.arange(float(shape[0] * shape[1])).reshape(shape) + 11),
                          dtype=float)
        if got.shape != ref.shape:
            out['violations'].append(dict(kind='index-helper-shape', what=f"`{rhs}` evaluates to shape {got.shape}, "
                                          f"the addressed part has shape {ref.shape}"))
            continue
        for ix in (np.ndindex(*ref.shape) if ref.shape else [()]):
            vd, model = decide.prove_equal(got[ix], ref[ix], pc=pc, tally=tally)
            out['n'] += 1
            if vd == 'sat':
                if conc.shape == cref.shape and not np.allclose(conc, cref):
                    tally.sat_confirmed += 1
                    out['violations'].append(dict(kind='index-helper-value', what=f"`{rhs}` with v = 1..{nv}, M = 11.. "
                                                  f"evaluates to {conc.tolist()}, the addressed part is {cref.tolist()}"))
                else:
                    tally.sat_spurious += 1
                    out['inconclusive'].append(dict(kind='sat-not-reproduced', what=rhs))
                break
            if vd == 'unknown':
                out['inconclusive'].append(dict(kind='solver-unknown', what=rhs))
    out['tally'] = tally.as_dict()
    return out


def run(tier='quick', seed=0, only=None, verbose=False):
    rep = Report('C05', tier, seed, 'translation_validation',
                 functions_encoded=['emitted text of get_run_func for one-equation operators (symx)',
                                    'ComputeGraph.eval_node: lambdified sympy callables executed on symbols',
                                    'pyrates.backend.parser.ExpressionParser._preprocess_expr_str / parse_expr (concrete)',
                                    'ComputeGraph._generate_unique_label, parser.split_equation (CrossHair)'],
                 bounds=dict(depth='<=3 (quick) / <=5 (thorough)', functions=UNARY + BINARY_F,
                             operators='+ - * / ^ unary-', sequences='powers with symbolic exponents (x^y as an uninterpreted pow), 2-3 expressions evaluated one after the other in one process, all orders', literals='ints, dyadic fractions, pi, E',
                             identifier_pools=NAME_POOLS, renderings='spacing, ^ vs **, parentheses, literal spelling, '
                                                                      "d/dt * x vs x'"),
                 stubs=['numpy library model'],
                 assumptions=['reals for floats', 'denominators != 0, log/sqrt arguments positive',
                              'transcendentals uninterpreted with instantiated lemmas: a sat answer that does not '
                              'reproduce numerically is inconclusive', 'index helpers: direct-evaluation path over vectors/matrices of symbols (every helper and position); in generated code they are exercised through the vectorized circuits of C01/C04'])
    n = 80 if tier == 'quick' else 1200
    jobs = []
    for i in range(n):
        depth = 1 + i % (3 if tier == 'quick' else 5)
        jobs.append(dict(key=f"expr:{seed}:{i}:d{depth}", seed=seed, idx=i, depth=depth, vectorize=bool(i % 2)))
    if only:
        jobs = [j for j in jobs if only in j['key']]
    for job, outc in runner.run_jobs(expr_job, jobs, timeout=300):
        if not outc['ok']:
            rep.harness_error(f"{job['key']}: {outc['error']} {outc.get('tb', '')[-400:]}")
            continue
        r = outc['result']
        rep.add_stats(outc['stats'])
        rep.add_tally(r['tally'])
        rep.program(job['key'], sample=dict(key=job['key'], equation=r['eq'], emitted=r['src'][-400:],
                                            eval_node=r.get('eval_verdict')) if rep.programs % 29 == 0 else None,
                    nontrivial='compile_error' not in r)
        if 'compile_error' in r and any(k in r['compile_error'] for k in ('ComplexInfinity', 'zoo', 'nan')):
            # the random tree divides by an expression that sympy reduces to 0 (e.g. x/(pi - pi)): no value to compare
            rep.inconcl(dict(key=job['key'], equation=r['eq'], what='expression divides by zero'))
            continue
        if 'compile_error' in r:
            why = _degenerate(make_program(job['seed'], job['idx'], job['depth'])[1])
            if why:
                rep.inconcl(dict(key=job['key'], equation=r['eq'], what=f"outside the generated grammar: {why}"))
                continue
            rec = dict(property='C05', key=job['key'], equation=r['eq'], kind='compile-raises',
                       what=f"{job['key']}: equation `{r['eq']}` over the documented grammar is rejected: "
                            f"{r['compile_error'][:200]}")
            fid = None
            if _directly_nested(make_program(job['seed'], job['idx'], job['depth'])[1]) and \
                    'is not callable' in r['compile_error']:
                fid = 'nested-same-function-call'
            rep.violation(rec, fid)
            continue
        for v in r['violations']:
            rec = dict(property='C05', key=job['key'], equation=r['eq'], emitted_source=r['src'], job=job, **v)
            rec['what'] = f"{job['key']}: `{r['eq']}`: {v.get('what')}"
            rep.violation(rec)
        for i in r['inconclusive']:
            rep.inconcl(dict(key=job['key'], equation=r['eq'], **{k: str(x)[:300] for k, x in i.items()}))
        if verbose:
            print(job['key'], r['eq'], [o['verdict'] for o in r.get('obligations', [])], r.get('eval_verdict'))
    # the same power written ^ / ** / spaced / parenthesised where the equation text is rewritten (input fed by two
    # operators of the node)
    from .. import families, tvjobs
    fj = [dict(key=f"{k}|vec={v}", spec=sp, vectorize=v, backend='default') for k, sp in families.fam_fanin_pow()
          for v in (True, False)]
    if only:
        fj = [j for j in fj if only in j['key']]
    tvjobs.run_tv_jobs(rep, fj, verbose=verbose)
    ij = [dict(key=f"index-helpers:nv={nv}:shape={sh}", nv=nv, shape=sh)
          for nv, sh in (((4, (2, 3)),) if tier == 'quick' else ((4, (2, 3)), (5, (3, 2)), (6, (4, 4)), (3, (1, 3))))]
    if only:
        ij = [j for j in ij if only in j['key']]
    for job, outc in runner.run_jobs(index_job, ij, timeout=300):
        if not outc['ok']:
            rep.harness_error(f"{job['key']}: {outc['error']} {outc.get('tb', '')[-300:]}")
            continue
        r = outc['result']
        rep.add_stats(outc['stats'])
        rep.add_tally(r['tally'])
        rep.program(job['key'], sample=dict(key=job['key'], cells=r['n']))
        for v in r['violations']:
            rep.violation(dict(property='C05', key=job['key'], **v))
        for i in r['inconclusive']:
            rep.inconcl(dict(key=job['key'], **i))
    sj = seq_jobs(tier)
    if only:
        sj = [j for j in sj if only in j['key']]
    for job, outc in runner.run_jobs(seq_job, sj, timeout=300):
        if not outc['ok']:
            rep.harness_error(f"{job['key']}: {outc['error']} {outc.get('tb', '')[-300:]}")
            continue
        r = outc['result']
        rep.add_stats(outc['stats'])
        rep.add_tally(r['tally'])
        rep.program(job['key'], sample=dict(key=job['key'], sequence=job['seq'], verdicts=r['verdicts']))
        for v in r['violations']:
            rec = dict(property='C05', key=job['key'], **v)
            rec['what'] = f"{job['key']}: {v['what']}"
            rep.violation(rec)
        for i in r['inconclusive']:
            rep.inconcl(dict(key=job['key'], **{k: str(x)[:300] for k, x in i.items()}))
    if not only or 'crosshair' in only:
        ch.consume(rep, 'pyverif.chh.c05_strings', timeout=120 if tier == 'quick' else 400)
    return rep.finish(rule='program = random expression tree (depth, functions, identifier pool) rendered with random '
                           'surface variation into a one-equation operator; obligations: emitted derivative == tree '
                           'value, eval_node value == tree value, for all variable values')
