"""C17 -- a parameter sweep equals running each parameter set on its own.

The real grid_search runs with a _solve stub that captures the ONE compiled function of the combined circuit and returns
a tag matrix.  Expected model: one independent copy of the base circuit per grid row, copy r carrying row r's values
(distinct symbols per row).  z3 proves that every state variable of copy r has exactly the derivative of the single
circuit with row r's values - since that reference mentions only copy r's own state, equality also proves the copies
are uncoupled.  The tag matrix shows that the DataFrame column labelled (key, <circuit r>, node, op/var) carries that
very state variable; the returned parameter table must map <circuit r> to row r's values.
"""
import copy
import os
import shutil
import warnings
from fractions import Fraction as F

import numpy as np

from .. import families, tv, tvspec, decide, runner, findings, symx
from ..spec import OpSpec, NodeSpec, EdgeSpec, EdgeTplSpec, ModelSpec, FP, build_python
from ..report import Report
from .c01 import FUNCS
from .c06 import TAG, _with_smap, _norm_label


def base_model(variant='plain'):
    """plain: every node has its own NodeTemplate.  shared: n0 and n1 are one NodeTemplate OBJECT (a key that addresses n0
    only must leave n1 alone).  edge-input: the edge n0 -> n1 carries an operator with a second, target-side input."""
    fp = FP()
    ops = {'o1': families.op_two_inputs(fp), 'li': families.op_leaky(fp)}
    ops['o1'].vars['w'] = ('input', F(0))
    ops['o1'].vars['u'] = ('input', F(0))
    ops['li'].vars['u'] = ('input', F(0))
    etp = {}
    if variant == 'shared':
        ov = families._node_overrides(fp, ops, ['o1'])
        nodes = {'n0': NodeSpec(['o1'], dict(ov), template='sh'), 'n1': NodeSpec(['o1'], dict(ov), template='sh')}
    else:
        nodes = {'n0': NodeSpec(['o1'], families._node_overrides(fp, ops, ['o1'])),
                 'n1': NodeSpec(['o1'], families._node_overrides(fp, ops, ['o1']))}
    nodes['m0'] = NodeSpec(['li'], families._node_overrides(fp, ops, ['li']))
    if variant == 'edge-input':
        ops['cpl'] = families.op_diff_alg(fp)
        etp = {'ei': EdgeTplSpec('ei', ['cpl'])}
        e0 = EdgeSpec('n0/o1/x', 'n1/o1/u', fp(), template='ei', var_map={'qs': 'source', 'qt': 'n1/o1/x'})
    elif variant == 'edge-delay':
        e0 = EdgeSpec('n0/o1/x', 'n1/o1/u', fp(), delay=F(1))
    else:
        e0 = EdgeSpec('n0/o1/x', 'n1/o1/u', fp())
    edges = [e0, EdgeSpec('m0/li/x', 'n0/o1/u', fp()), EdgeSpec('n1/o1/x', 'm0/li/u', fp())]
    if variant == 'fanin':
        edges.append(EdgeSpec('n0/o1/x', 'm0/li/u', fp()))       # m0.u is fed by two nodes of one type
    if variant == 'parallel':
        for _ in range(3):
            fp()         # keep the weights out of an arithmetic progression (distinct sums)
        edges.append(EdgeSpec('n0/o1/x', 'n1/o1/u', fp()))        # second edge between the same two variables
    return ModelSpec('base', ops, nodes, edges, etp), fp


SCENARIOS = {
    'node-params': dict(map={'k': dict(vars=['o1/k'], nodes=['n0']), 'tau': dict(vars=['li/tau'], nodes=['m0'])}),
    'several-targets': dict(map={'kk': dict(vars=['o1/k', 'o1/g'], nodes=['n0', 'n1'])}),
    'edge-weight': dict(map={'w': dict(vars=['weight'], edges=[('n0/o1/x', 'n1/o1/u')]),
                             'c': dict(vars=['o1/c'], nodes=['n1'])}),
    'with-input': dict(map={'k': dict(vars=['o1/k'], nodes=['n1'])}, input='n0/o1/w'),
    'shared-template': dict(map={'k': dict(vars=['o1/k'], nodes=['n0']), 'g': dict(vars=['o1/g'], nodes=['n1'])},
                            variant='shared'),
    'edge-input': dict(map={'k': dict(vars=['o1/k'], nodes=['n0'])}, variant='edge-input'),
    # sweep over an edge delay that is realised as an ODE chain (dde_approx=2): rates 2/d that round to one integer
    'edge-delay': dict(map={'d': dict(vars=['delay'], edges=[('n0/o1/x', 'n1/o1/u')])}, variant='edge-delay',
                       values={'d': [F(1), F(11, 10), F(5, 4), F(9, 10)]}, run_kw=dict(dde_approx=2)),
    # a target fed by two nodes of one type; with >= 5 rows the merged edge group is sparse (index-based edge code)
    'fan-in': dict(map={'k': dict(vars=['o1/k'], nodes=['n0']), 'w': dict(vars=['weight'], edges=[('n1/o1/x', 'm0/li/u')])},
                   variant='fanin', rows=(5, 6)),
    # a fine sweep: >= 10 rows (index-based edge code for the merged group) over weights that differ by 6e-8 each
    'edge-weight-fine': dict(map={'w': dict(vars=['weight'], edges=[('n0/o1/x', 'n1/o1/u')])},
                             values={'w': [F(35, 16) + F(i, 2 ** 24) for i in range(12)]}, rows=(10, 12)),
    # two parallel edges n0 -> n1; the sweep addresses the SECOND one by its index
    'parallel-edge-index': dict(map={'w': dict(vars=['weight'], edges=[('n0/o1/x', 'n1/o1/u', 1)])}, variant='parallel'),
    # sweep over a plain (ring-buffer) delay with a fixed step of 1/4: 1 step (neglected by a separate run), 3 and 5 steps
    'edge-delay-steps': dict(map={'d': dict(vars=['delay'], edges=[('n0/o1/x', 'n1/o1/u')])}, variant='edge-delay',
                             values={'d': [F(3, 4), F(1, 4), F(5, 4), F(1, 2)]}, ring=True),
}


def job_fn(job):
    import pyrates.backend.base.base_backend as bb
    from pyrates import grid_search
    sc = SCENARIOS[job['scenario']]
    base, fp = base_model(sc.get('variant', 'plain'))
    rows = job['rows']
    # grid: one column per swept key plus one column per state variable (distinct initial values per copy)
    state_keys = {'x_n0': dict(vars=['o1/x'], nodes=['n0']), 'x_n1': dict(vars=['o1/x'], nodes=['n1']),
                  'x_m0': dict(vars=['li/x'], nodes=['m0'])}
    pmap = dict(sc['map'])
    pmap.update(state_keys)
    grid = {k: [fp() for _ in range(rows)] for k in pmap}
    for k, vals_ in sc.get('values', {}).items():
        grid[k] = list(vals_[:rows])
    order = list(range(rows))
    if job.get('reverse'):
        order = order[::-1]
    grid_f = {k: np.array([float(v[i]) for i in order]) for k, v in grid.items()}
    # expected combined spec -------------------------------------------------------------
    # circuit r of the sweep is named after the index LABEL of grid row r (0..n-1 for dict grids)
    labels = (list(range(1, rows)) + [0]) if job.get('df_index') else list(range(rows))
    cname = lambda r: f"base_{labels[r]}"        # noqa
    nodes, edges = {}, []
    for r in range(rows):
        gi = order[r]
        for n, ns in base.nodes.items():
            nn = copy.deepcopy(ns)
            nn.template = None          # the expected model is per node; sharing is a property of the input only
            nodes[f"{cname(r)}/{n}"] = nn
        for e in base.edges:
            edges.append(EdgeSpec(f"{cname(r)}/{e.src}", f"{cname(r)}/{e.tgt}", e.weight, delay=e.delay, template=e.template,
                                  var_map={k_: (v_ if v_ == 'source' else f"{cname(r)}/{v_}")
                                           for k_, v_ in e.var_map.items()}))
        for key, m in pmap.items():
            val = grid[key][gi]
            if 'nodes' in m:
                for n in m['nodes']:
                    for v in m['vars']:
                        o, vv = v.split('/')
                        nodes[f"{cname(r)}/{n}"].overrides[(o, vv)] = val
            else:
                for (s, t, *eidx) in m['edges']:
                    hits = [i for i, e in enumerate(edges) if e.src == f"{cname(r)}/{s}" and e.tgt == f"{cname(r)}/{t}"]
                    for i, e in enumerate(edges):
                        if i == hits[eidx[0] if eidx else 0]:
                            if m['vars'] == ['delay']:
                                # a separate run neglects a delay that rounds to less than two steps
                                dv = None if (sc.get('ring') and round(val / F(1, 4)) < 2) else val
                                edges[i] = EdgeSpec(e.src, e.tgt, e.weight, delay=dv, template=e.template, var_map=e.var_map)
                            else:
                                edges[i] = EdgeSpec(e.src, e.tgt, val, delay=e.delay, template=e.template, var_map=e.var_map)
    exp = ModelSpec('top_lvl', base.ops, nodes, edges, base.edge_tpls, note=f"grid_search {job['scenario']} rows={rows}")
    if job.get('inplace_add'):
        # the template is created with all edges but the last; that edge is then added in place, as add_edges_from_matrix
        # and update_template(in_place=True) do: the edges that existed before stay addressable by the sweep
        last = base.edges[-1]
        less = copy.deepcopy(base)
        less.edges = list(base.edges[:-1])
        ct = build_python(less)
        ct.update_template(edges=[(last.src, last.tgt, None, {'weight': float(last.weight)})], in_place=True)
    else:
        ct = build_python(base)
    cap = {}

    def stub(self, solver, func, args, T, dt, dts, y0, t0, times, **kw):
        steps = int(np.round(T / dts))
        ny = int(np.size(y0))
        rec = np.zeros((steps, ny))
        for k in range(steps):
            rec[k, :] = k * TAG + np.arange(ny)
        names = func.__code__.co_varnames[:func.__code__.co_argcount]
        path = func.__code__.co_filename
        cap.update(func=func, args=(t0, np.array(y0, copy=True)) + tuple(args), keys=tuple(names),
                   src=open(path).read() if os.path.exists(path) else '')
        return rec
    orig = bb.BaseBackend._solve
    bb.BaseBackend._solve = stub
    wd = tv.scratch_dir()
    old = os.getcwd()
    os.chdir(wd)
    out = dict(violations=[], inconclusive=[], obligations=[], src='', exp_spec=exp)
    tally = decide.Tally()
    inputs = None
    table = {}
    ext = None
    N = 3
    if sc.get('input'):
        arr = np.array([float(F(2 * i + 1281, 64)) for i in range(N)])
        inputs = {sc['input']: arr}
        U = [symx.real(f"U_{i}") for i in range(N)]
        for i in range(N):
            table[F(2 * i + 1281, 64)] = U[i]
    try:
        with warnings.catch_warnings():
            warnings.simplefilter('ignore')
            try:
                outs = {'xo': 'n1/o1/x', 'xl': 'm0/li/x'}
                grid_arg = grid_f
                if job.get('df_index'):
                    # the grid as a DataFrame whose integer index labels are a permutation: rows keep their POSITION
                    import pandas as pd
                    grid_arg = pd.DataFrame({k: list(v) for k, v in grid_f.items()}, index=labels)
                ct_arg = ct
                if job.get('yaml_path'):
                    # the circuit given as a template path (from_yaml caches templates by path)
                    ct.to_yaml(f"{wd}/gs.yaml")
                    ct_arg = f"{wd}/gs/{ct.name}"
                if job.get('twice'):
                    # the caller's inputs dictionary is used for two sweeps in a row (the second one is examined)
                    grid_search(ct_arg, grid_arg, pmap, step_size=0.25, simulation_time=0.75, outputs=dict(outs),
                                inputs=inputs, vectorize=job['vectorize'], verbose=False, in_place=False,
                                float_precision='float64', solver='euler', clear=True)
                df, ptable = grid_search(ct_arg, grid_arg, pmap, step_size=0.25, simulation_time=0.75, outputs=dict(outs),
                                         inputs=inputs, vectorize=job['vectorize'], verbose=False, in_place=False,
                                         float_precision='float64', solver='euler', clear=False, **sc.get('run_kw', {}))
            except Exception as e:   # noqa
                out['compile_error'] = f"{type(e).__name__}: {e}"
                out['tally'] = tally.as_dict()
                return out
        c = tv.Compiled(cap['func'], cap['args'], cap['keys'], {}, cap['src'], cap['func'].__name__, 'default', wd)
        out['src'] = c.src
        steps = [1] if inputs else [0]
        for k in steps:
            if inputs:
                tn = sc['input'].rsplit('/', 2)
                ext = {(f"{cname(r)}/{tn[0]}", tn[1], tn[2]): [U[k]] for r in range(rows)}
            plugin = None
            if sc.get('ring'):
                from .. import tvdelay
                plugin = tvdelay.RingBufferPlugin(F(1, 4))
                k = 3
            if sc.get('run_kw', {}).get('dde_approx'):
                from .. import tvdelay
                plugin = tvdelay.ChainPlugin(order_of=lambda e, n_=sc['run_kw']['dde_approx']: n_)
            res = tvspec.validate(exp, _with_smap(c, exp), tally, vectorized=True, ext_inputs=ext, t_sym=int(k),
                                  extra_table=table, plugin=plugin)
            out['violations'] += res['violations']
            out['inconclusive'] += res['inconclusive']
            out['obligations'] += res['obligations']
        if out['violations']:
            out['tally'] = tally.as_dict()
            return out
        syms = tvspec.Symbols(exp)
        pos, ny = tvspec._positions(c, syms)
        # labels -------------------------------------------------------------------------
        vals = np.asarray(df.values)
        got = {}
        for j, col in enumerate(df.columns):
            got[_norm_label(col)] = set(int(x) % TAG for x in vals[:, j])
        for key, path in outs.items():
            n, o, v = path.rsplit('/', 2)
            for r in range(rows):
                lab = (key, cname(r), n, f"{o}/{v}")
                if lab not in got:
                    out['violations'].append(dict(kind='columns', what=f"no column {lab}; columns are {sorted(map(str, got))[:8]}"))
                    continue
                want = pos[(f"{cname(r)}/{n}", o, v)][0]
                if got[lab] != {want}:
                    out['violations'].append(dict(kind='column-content', what=f"column {lab} carries state index "
                                                  f"{sorted(got[lab])}, variable {cname(r)}/{path} sits at {want}"))
                else:
                    tally.obligations += 1
                    tally.unsat += 1
        if len(got) != rows * len(outs):
            out['violations'].append(dict(kind='columns', what=f"{len(got)} columns for {rows} rows x {len(outs)} outputs"))
        # parameter table --------------------------------------------------------------------
        for r in range(rows):
            gi = order[r]
            if cname(r) not in ptable.index:
                out['violations'].append(dict(kind='param-table', what=f"parameter table has no row {cname(r)}: {list(ptable.index)}"))
                continue
            for key in pmap:
                if abs(float(ptable.loc[cname(r), key]) - float(grid[key][gi])) > 1e-12:
                    out['violations'].append(dict(kind='param-table', what=f"parameter table maps {cname(r)}.{key} to "
                                                  f"{ptable.loc[cname(r), key]}, the circuit was built with {float(grid[key][gi])}"))
    finally:
        bb.BaseBackend._solve = orig
        os.chdir(old)
        shutil.rmtree(wd, ignore_errors=True)
    out['tally'] = tally.as_dict()
    return out


def linearize_job(job):
    """linearize_grid(permute=True) must produce every combination exactly once, columns keeping their key"""
    from pyrates.utility import linearize_grid
    import itertools
    bad = []
    n = 0
    for shape in [(2, 2), (2, 3), (3, 2), (1, 3), (2, 2, 2), (3, 1, 2)]:
        grid = {f"p{i}": [10.0 * (i + 1) + j for j in range(m)] for i, m in enumerate(shape)}
        df = linearize_grid(dict(grid), permute=True)
        rows = sorted(tuple(float(df[k][i]) for k in grid) for i in df.index)
        want = sorted(itertools.product(*[grid[k] for k in grid]))
        n += 1
        if rows != [tuple(map(float, w)) for w in want] or list(df.columns) != list(grid):
            bad.append(f"linearize_grid(permute=True) for shape {shape}: rows {rows[:4]}... expected the cartesian product")
    for m in (1, 2, 4):
        grid = {'a': list(range(m)), 'b': [x + 0.5 for x in range(m)]}
        df = linearize_grid(dict(grid), permute=False)
        n += 1
        if [tuple(df.loc[i]) for i in df.index] != list(zip(grid['a'], grid['b'])):
            bad.append(f"linearize_grid(permute=False) changed the pairing for length {m}")
    return bad, n


def run(tier='quick', seed=0, only=None, verbose=False):
    rep = Report('C17', tier, seed, 'translation_validation', functions_encoded=FUNCS + [
        'pyrates.utility.grid_search / adapt_circuit / linearize_grid (concrete)',
        'CircuitTemplate.update_template(circuits=...), update_var, run tail (concrete, tag flow)'],
        bounds=dict(rows='2-3 (quick) / 2-5 (thorough)', scenarios=list(SCENARIOS), base_circuit='3 nodes, 3 edges',
                    grids='equal-length dicts (row order as given and reversed); permuted grids only through '
                          'linearize_grid itself'),
        stubs=['BaseBackend._solve capturing tag stub'],
        assumptions=['reals for floats', 'every grid carries one extra key per state variable so that the copies have '
                     'distinct initial values (needed to locate state positions by value)',
                     'permute_grid=True: only linearize_grid is checked (cartesian product), the sweep itself is the same '
                     'code path as an explicit grid'])
    jobs = []
    for sc in SCENARIOS:
        for rows in (SCENARIOS[sc].get('rows') or ((2, 3) if tier == 'quick' else (2, 3, 4, 5))):
            if sc in ('edge-delay', 'edge-delay-steps') and rows > 4:
                continue
            for vec in (True, False):
                for rev in (False, True):
                    if tier == 'quick' and rev and not vec:
                        continue
                    jobs.append(dict(key=f"grid:{sc}:rows={rows}:rev={rev}|vec={vec}", scenario=sc, rows=rows,
                                     vectorize=vec, reverse=rev))
    for vec in (True, False):
        jobs.append(dict(key=f"grid:with-input:rows=2:same-inputs-dict-twice|vec={vec}", scenario='with-input', rows=2,
                         vectorize=vec, reverse=False, twice=True))
    for sc in ('edge-weight', 'fan-in'):
        for vec in (True, False):
            rows = 3 if sc == 'edge-weight' else 5
            jobs.append(dict(key=f"grid:{sc}:rows={rows}:edge-added-in-place|vec={vec}", scenario=sc, rows=rows, vectorize=vec,
                             reverse=False, inplace_add=True))
    for sc in ('node-params', 'edge-weight'):
        for rows in (3,) if tier == 'quick' else (2, 3, 4):
            for vec in (True, False):
                jobs.append(dict(key=f"grid:{sc}:rows={rows}:dataframe-permuted-index|vec={vec}", scenario=sc, rows=rows,
                                 vectorize=vec, reverse=False, df_index=True))
                jobs.append(dict(key=f"grid:{sc}:rows={rows}:yaml-path|vec={vec}", scenario=sc, rows=rows,
                                 vectorize=vec, reverse=False, yaml_path=True))
    if only:
        jobs = [j for j in jobs if only in j['key']]
    for job, outc in runner.run_jobs(job_fn, jobs, timeout=600):
        if not outc['ok']:
            rep.harness_error(f"{job['key']}: {outc['error']} {outc.get('tb', '')[-500:]}")
            continue
        r = outc['result']
        rep.add_stats(outc['stats'])
        rep.add_tally(r['tally'])
        rep.program(job['key'], sample=dict(key=job['key'], obligations=r['obligations'][:4], emitted=r['src'][-500:])
                    if rep.programs % 11 == 0 else None, nontrivial='compile_error' not in r)
        spec = r['exp_spec']
        j2 = dict(job, spec=spec)
        if 'compile_error' in r:
            rec = dict(property='C17', key=job['key'], kind='run-raises', what=f"{job['key']}: grid_search raises "
                       f"{r['compile_error'][:300]}")
            rep.violation(rec, findings.attribute('C17', j2, rec))
            continue
        for v in r['violations']:
            rec = dict(property='C17', key=job['key'], spec=spec.describe(), spec_blob=tvspec.spec_blob(spec),
                       emitted_source=r['src'], **v)
            rec['what'] = f"{job['key']}: {v.get('what')}"
            rep.violation(rec, v.get('finding') or findings.attribute('C17', j2, rec))
        for i in r['inconclusive']:
            rep.inconcl(dict(key=job['key'], **{k: str(x)[:200] for k, x in i.items()}))
    for job, outc in runner.run_jobs(linearize_job, [dict(key='linearize_grid')], timeout=120):
        if outc['ok']:
            bad, n = outc['result']
            rep.program('linearize_grid', sample=dict(grids=n, failing=bad))
            rep.extra['discharged_other'] = n - len(bad)
            for b in bad:
                rep.violation(dict(property='C17', kind='linearize', what=b))
        else:
            rep.harness_error(outc['error'])
    return rep.finish(rule='program = (scenario: node parameters / several targets per key / edge attribute / extrinsic '
                           'input, number of grid rows, row order, vectorize); obligations: per copy and state variable '
                           'emitted derivative == reference of the single circuit with that row\'s values; columns and '
                           'parameter table consistent')
