"""C11 -- distributed delays are unit-gain gamma kernels with the stated mean (chain structure decided by the solver)."""
from fractions import Fraction as F

from .. import families, tv, tvspec, decide, tvdelay, tvjobs
from ..spec import build_python
from ..report import Report
from .c01 import FUNCS

DT = F(1, 8)


def job_fn(job):
    spec = job['spec']
    ct = build_python(spec)
    tally = decide.Tally()
    ckw = {}
    if job.get('dde_approx'):
        ckw['dde_approx'] = job['dde_approx']
    try:
        c = tv.compile_template(ct, vectorize=job['vectorize'], step_size=float(DT), solver=job['solver'], **ckw)
    except tv.CompileError as e:
        return dict(status='compile-raises', error=str(e))
    # (a delay of at most one step is neglected - the edge reads its source directly -, also when it carries a spread)
    plugin = tvdelay.ChainPlugin(order_of=lambda e: 0 if F(e.delay) <= DT else round((F(e.delay) / F(e.spread)) ** 2))
    if job.get('dde_approx'):
        # every plain delay becomes a chain of dde_approx stages of rate dde_approx/d
        n_ = job['dde_approx']
        # (an edge that also carries a spread takes the larger of the two orders; a delay of at most one step is neglected)
        plugin = tvdelay.ChainPlugin(order_of=lambda e: 0 if F(e.delay) <= DT else
                                     max(n_, round((F(e.delay) / F(e.spread)) ** 2) if e.spread else 0))
        res = tvspec.validate(spec, c, tally, vectorized=job['vectorize'], plugin=plugin,
                              t_sym=(3 if job['solver'] == 'euler' else None))
        return dict(status='ok', res=res, tally=tally.as_dict(), src=c.src, keys=list(c.keys),
                    smap={k: str(v) for k, v in c.smap.items()})
    if job['solver'] == 'euler' and any(e.delay is not None and e.spread is None for e in spec.edges):
        plugin = tvdelay.Composite(plugin, tvdelay.RingBufferPlugin(DT))
    elif any(e.delay is not None and e.spread is None for e in spec.edges):
        plugin = tvdelay.Composite(plugin, tvdelay.HistPlugin(DT, True))
    from .. import symx
    t_sym = 3 if job['solver'] == 'euler' else (symx.real('t') if isinstance(plugin, tvdelay.Composite) else None)
    res = tvspec.validate(spec, c, tally, vectorized=job['vectorize'], plugin=plugin, t_sym=t_sym)
    # unit gain and mean delay of every discovered chain (exact rational arithmetic on the discovered rates)
    chains = {}
    for j, (src, rates) in getattr(plugin, 'aux_info', getattr(getattr(plugin, 'plugins', [None])[0], 'aux_info', {})).items():
        chains[j] = dict(src='/'.join(src), order=len(rates), rates=[str(r) for r in rates],
                         mean=str(sum(1 / r for r in rates)))
    res['chains'] = list(chains.values())[:12]
    return dict(status='ok', res=res, tally=tally.as_dict(), src=c.src, keys=list(c.keys),
                smap={k: str(v) for k, v in c.smap.items()})


def run(tier='quick', seed=0, only=None, verbose=False):
    rep = Report('C11', tier, seed, 'translation_validation', functions_encoded=FUNCS + [
        'pyrates.ir.circuit.CircuitIR._add_edge_buffer ODE branch (concrete)',
        'emitted chain equations d/dt z_k = k*(z_{k-1} - z_k) (symx; chain graph discovered with z3)'],
        bounds=dict(order='<=4 (quick) / <=9 (thorough)', pairs=[(str(a), str(b)) for a, b in families.GAMMA_PAIRS],
                    nodes='<=3', edges='<=4', solvers='euler-flagged and scipy-flagged compiles', vectorize='on/off'),
        stubs=['numpy library model'],
        assumptions=['reals for floats', 'auxiliary state = state position that carries no declared initial value; its '
                     'derivative must be k*(prev - z) with constant k; two stages with the same source and the same rate '
                     'path are the same function of time (same ODE, same zero start), so they share one symbol',
                     'unit steady-state gain and mean delay n/rate = d follow from the proved chain structure: n stages of '
                     'rate n/d between source and target'])
    mo = 4 if tier == 'quick' else 9
    progs = families.fam_gamma_fixed() + families.fam_gamma(seed, n=10 if tier == 'quick' else 120, max_order=mo)
    if only:
        progs = [p for p in progs if only in p[0]]
    jobs = []
    for k, s in progs:
        for v in (True, False):
            for solver in (('euler', 'scipy') if tier == 'thorough' else (('euler',) if v else ('scipy',))):
                jobs.append(dict(key=f"{k}|vec={v}|{solver}", spec=s, vectorize=v, solver=solver))
    # dde_approx=n: plain delays realised as n-stage chains
    dd = [p for p in families.fam_discrete_delays_fixed() if p[0] in ('F9x:two-delays-one-source', 'F9x:ring',
                                                                                'F9x:two-delays-one-target', 'F9x:parallel-delayed',
                                                                                'F9x:parallel-delayed-scalar-source')]
    dd += [p for p in families.fam_gamma_fixed() if p[0] == 'F11x:neglected-delay-with-spread']
    for k, s in dd:
        for n_ in ((2,) if tier == 'quick' else (1, 2, 3, 5)):
            for v in (True, False):
                for solver in ('euler', 'scipy'):
                    jobs.append(dict(key=f"{k}|dde_approx={n_}|vec={v}|{solver}", spec=s, vectorize=v, solver=solver,
                                     dde_approx=n_))
    if only:
        jobs = [j for j in jobs if only in j['key']]
    tvjobs.run_tv_jobs(rep, jobs, verbose=verbose, fn=job_fn)
    # Connectivity form: delayed + spread connections between populations (harness of C16, the spread kinds only)
    from . import c16
    mj = []
    for kind in ('spread', 'spread2'):
        for i in range(3 if tier == 'quick' else 12):
            mj.append(dict(key=f"pop:{kind}:{seed}:{i}|population", kind=kind, seed=seed * 100 + i, build='population',
                           vectorize=True, spec=None))
    if only:
        mj = [j for j in mj if only in j['key']]
    for j in mj:
        j['spec'] = c16.explicit_spec(c16.make_model(j['kind'], j['seed']))
    tvjobs.run_tv_jobs(rep, mj, verbose=verbose, fn=c16.job_fn)
    return rep.finish(rule='program = circuit with (delay, spread) edges x vectorize x solver flag; obligations: every '
                           'auxiliary state is a first-order stage k*(prev - z) whose input is a model variable or another '
                           'stage (solver-proved), and every declared state variable\'s derivative equals the reference in '
                           'which an edge (d, s) delivers weight x stage n=round((d/s)^2) of the rate-(n/d) chain of its '
                           'source')
