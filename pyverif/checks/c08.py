"""C08 -- extrinsic inputs are applied at the right time to the right unit.

The input array is an argument of the emitted function, so its samples are symbols U[k] / U[k, c].  Fixed step: for
every step k the emitted derivative is proved equal to the reference with U[k] (column c for addressed node c) added to
the driven variable.  Adaptive: t is a symbolic real in [0, T]; the reference value is the linear interpolation of U on
the uniform grid j*T/(N-1) stated by the property (the emitted `time` argument is not trusted, it is compared through
the equality).
"""
from fractions import Fraction as F

import numpy as np
import z3

from .. import families, tv, tvspec, decide, runner, symx, libmodels, findings
from ..spec import OpSpec, NodeSpec, EdgeSpec, ModelSpec, FP, build_python
from ..report import Report
from .c01 import FUNCS


ALT = {'a0': 'pc', 'a1': 'ein', 'a2': 'iin', 'b0': 'zb'}     # declaration order differs from alphabetical order


def make_spec(shape_kind, hier, alt=False):
    spec = _make_spec(shape_kind, hier)
    if not alt:
        return spec

    def ren(path):
        parts = path.split('/')
        return '/'.join(ALT.get(q, q) for q in parts)
    nodes = {ren(n): ns for n, ns in spec.nodes.items()}
    edges = [EdgeSpec(ren(e.src), ren(e.tgt), e.weight) for e in spec.edges]
    return ModelSpec('m', spec.ops, nodes, edges)


def _make_spec(shape_kind, hier):
    fp = FP()
    li = families.op_leaky(fp)
    li.vars['u'] = ('input', F(0))
    o1 = families.op_two_inputs(fp)
    o1.vars['u'] = ('input', F(0))
    o1.vars['w'] = ('input', F(0))
    ops = {'li': li, 'o1': o1}
    pre = ['c0/', 'c1/'] if hier else ['']
    nodes = {}
    edges = []
    for p in pre:
        for i in range(3):
            nodes[f"{p}a{i}"] = NodeSpec(['li'], {('li', 'x'): fp(), ('li', 'tau'): fp()})
        nodes[f"{p}b0"] = NodeSpec(['o1'], families._node_overrides(fp, ops, ['o1']))
        edges.append(EdgeSpec(f"{p}a1/li/x", f"{p}a0/li/u", fp()))
        edges.append(EdgeSpec(f"{p}b0/o1/x", f"{p}a2/li/u", fp()))
        edges.append(EdgeSpec(f"{p}a0/li/x", f"{p}b0/o1/w", fp()))
    return ModelSpec('m', ops, nodes, edges)


def targets_of(spec, target):
    """nodes addressed by a target path with 'all' wildcards, in declaration (path) order"""
    *node_id, op, var = target.split('/')
    out = []
    for n in spec.nodes:
        parts = n.split('/')
        if len(parts) != len(node_id):
            continue
        if all(a == 'all' or a == b for a, b in zip(node_id, parts)) and op in spec.nodes[n].ops:
            out.append(n)
    return out, op, var


def input_job(job):
    spec = make_spec(None, job['hier'], job.get('alt', False))
    N, cols = job['N'], job['cols']
    shape = (N,) if cols == 0 else (N, cols)
    # fingerprinted input samples (dyadic, disjoint from the spec's (2k+35)/16 pool: use /64 with odd numerators)
    base = np.array([F(2 * i + 1281, 64) for i in range(int(np.prod(shape)))], dtype=object).reshape(shape)
    arr = np.array(base, dtype=float)
    U = np.empty(shape, dtype=object)
    table = {}
    for ix in np.ndindex(*shape):
        U[ix] = symx.real('U' + ''.join(f"_{i}" for i in ix))
        table[F(base[ix])] = U[ix]
    dt = F(1, 4)
    adaptive = job['solver'] != 'euler'
    ct = build_python(spec)
    tally = decide.Tally()
    out = dict(violations=[], inconclusive=[], obligations=[], src='')
    if job.get('backend') == 'fortran':
        from .. import f2pystub
        f2pystub.install()
    Tsim = dt * N
    try:
        if job.get('via') == 'run':
            # through run(): simulation_time is given explicitly and (adaptive solver) need not be N*step_size
            Tsim = dt * job.get('T_steps', N)
            first = next(iter(spec.nodes))
            c = tv.capture_run(ct, simulation_time=float(Tsim), step_size=float(dt), solver=job['solver'],
                               inputs={job['target']: arr}, vectorize=job['vectorize'],
                               outputs={'o': f"{first}/{spec.nodes[first].ops[0]}/x"})
        else:
            c = tv.compile_template(ct, vectorize=job['vectorize'], step_size=float(dt), solver=job['solver'],
                                    inputs={job['target']: arr}, backend=job.get('backend', 'default'),
                                    **job.get('compile_kw', {}))
    except tv.CompileError as e:
        out['compile_error'] = str(e)
        out['tally'] = tally.as_dict()
        return out
    out['src'] = c.src
    vz = True if job.get('via') == 'run' else job['vectorize']    # run() exposes no state map: positions by value only
    tnodes, op, var = targets_of(spec, job['target'])
    ncol = 1 if cols in (0, 1) else cols

    def ext_for(values):
        """values: list of per-column values (len ncol)"""
        ext = {}
        for i, n in enumerate(tnodes):
            v = values[i] if (ncol == len(tnodes) and ncol > 1) else values[0]
            ext[(n, op, var)] = [v]
        return ext
    if ncol > 1 and ncol != len(tnodes):
        out['inconclusive'].append(dict(what='column count differs from number of targets: outside the property'))
        out['tally'] = tally.as_dict()
        return out
    if not adaptive:
        for k in range(N):
            vals = [U[k]] if cols == 0 else [U[k, cidx] for cidx in range(cols)]
            # the step counter handed to the function is t0 + k (t0 = returned initial counter: 0 for the Python
            # backends, 1 for Fortran, whose arrays are 1-based)
            t0 = int(np.asarray(c.args[0]).reshape(-1)[0])
            res = tvspec.validate(spec, c, tally, vectorized=vz, ext_inputs=ext_for(vals), t_sym=int(k) + t0,
                                  extra_table=table, twin=(k == 0), label=f"@step{k}")
            _merge(out, res, f"step {k}")
    else:
        T = Tsim
        t = symx.real('t')
        grid = [symx.val(T * F(j, N - 1)) for j in range(N)]
        vals = []
        for cidx in range(max(cols, 1)):
            col = [U[j] if cols == 0 else U[j, cidx] for j in range(N)]
            vals.append(libmodels.m_interp(t, grid, col))
        # t in [0, T] plus one obligation each for t < 0 and t > T (clamping is part of np.interp's definition; the
        # property speaks about [0, T] only, so those are not claimed)
        res = tvspec.validate(spec, c, tally, vectorized=vz, ext_inputs=ext_for(vals), t_sym=t,
                              extra_table=table, extra_assumptions=[t.e >= 0, t.e <= symx.lift(T)], label='@t')
        _merge(out, res, 'symbolic t in [0,T]')
    out['tally'] = tally.as_dict()
    return out


def _merge(out, res, label):
    for v in res['violations']:
        v = dict(v)
        v['what'] = f"[{label}] {v.get('what')}"
        out['violations'].append(v)
    for i in res['inconclusive']:
        out['inconclusive'].append(dict(i, where=label))
    out['obligations'] += res['obligations']


def jobs_for(tier):
    J = []
    Ns = [3, 5] if tier == 'quick' else [2, 3, 6, 9]
    for hier in (False, True):
        pre = 'c0/' if hier else ''
        allp = 'all/all/' if hier else 'all/'
        for solver in ('euler', 'scipy'):
            for vec in (True, False):
                for N in Ns:
                    tg = [(f"{pre}a0/li/u", 0), (f"{pre}a0/li/u", 1), (f"{allp}li/u", 0), (f"{pre}b0/o1/w", 0),
                          (f"{pre}a2/li/u", 0)]
                    if vec:
                        tg.append((f"{allp}li/u", 6 if hier else 3))
                        if hier:
                            tg.append(("c1/all/li/u", 3))
                    for target, cols in tg:
                        J.append(dict(key=f"in:{target}:N={N}:cols={cols}:{solver}:vec={vec}:hier={hier}", target=target,
                                      N=N, cols=cols, solver=solver, vectorize=vec, hier=hier))
    if tier == 'quick':
        J = [j for i, j in enumerate(J) if i % 3 == 0]
    # node names whose declaration order is not their alphabetical order (one column per node follows declaration order)
    for solver in ('euler', 'scipy'):
        J.append(dict(key=f"in:all/li/u:N=3:cols=3:{solver}:vec=True:alt-names", target='all/li/u', N=3, cols=3,
                      solver=solver, vectorize=True, hier=False, alt=True))
        J.append(dict(key=f"in:all/li/u:N=4:cols=0:{solver}:vec=True:alt-names", target='all/li/u', N=4, cols=0,
                      solver=solver, vectorize=True, hier=False, alt=True))
    # the index-based edge branch (forced by configuration; reached by default with >= 11 addressed nodes)
    for solver in ('euler', 'scipy'):
        for cols in (0, 3):
            J.append(dict(key=f"in:all/li/u:N=3:cols={cols}:{solver}:vec=True:index-branch", target='all/li/u', N=3,
                          cols=cols, solver=solver, vectorize=True, hier=False, compile_kw=dict(matrix_sparseness=1.0)))
    # through run(): fixed step with N = T/dt samples; adaptive with FEWER / MORE samples than T/dt
    for vec in (True, False):
        J.append(dict(key=f"in:a0/li/u:N=4:cols=0:euler:vec={vec}:via-run", target='a0/li/u', N=4, cols=0, solver='euler',
                      vectorize=vec, hier=False, via='run'))
        for N, Ts in ((3, 8), (5, 4), (4, 4)) if tier == 'quick' else ((3, 8), (5, 4), (4, 4), (2, 6), (7, 3)):
            J.append(dict(key=f"in:a0/li/u:N={N}:cols=0:scipy:vec={vec}:via-run:T={Ts}dt", target='a0/li/u', N=N, cols=0,
                          solver='scipy', vectorize=vec, hier=False, via='run', T_steps=Ts))
        if vec:
            J.append(dict(key=f"in:all/li/u:N=3:cols=3:scipy:vec=True:via-run:T=6dt", target='all/li/u', N=3, cols=3,
                          solver='scipy', vectorize=True, hier=False, via='run', T_steps=6))
    return J


def run(tier='quick', seed=0, only=None, verbose=False):
    rep = Report('C08', tier, seed, 'translation_validation', functions_encoded=FUNCS + [
        'CircuitTemplate._add_input / create_input_node / _add_input_node (concrete)',
        'emitted interp / interp_rows helper text (symx); numpy.interp library model'],
        bounds=dict(N='3,5 (quick) / 2,3,6,9 (thorough)', targets='single node, wildcard all, hierarchy, (N,), (N,1), (N,n)',
                    solvers='euler (fixed step, every k < N), scipy-flagged (adaptive, symbolic t in [0,T])',
                    backend='default'),
        stubs=['numpy library model incl. np.interp as nested If (validated per run)'],
        assumptions=['reals for floats', 'input defaults of the driven variables are 0 in this family (the dropped-default '
                     'defect is recorded under C01)', 't outside [0, T] not claimed'])
    J = jobs_for(tier)
    if only:
        J = [j for j in J if only in j['key']]
    for job, outc in runner.run_jobs(input_job, J, timeout=600):
        if not outc['ok']:
            rep.harness_error(f"{job['key']}: {outc['error']} {outc.get('tb', '')[-500:]}")
            continue
        r = outc['result']
        rep.add_stats(outc['stats'])
        rep.add_tally(r['tally'])
        rep.program(job['key'], sample=dict(key=job['key'], emitted=r['src'][-700:], obligations=r['obligations'][:6])
                    if rep.programs % 19 == 0 else None, nontrivial=bool(r['obligations']))
        if 'compile_error' in r:
            rec = dict(property='C08', key=job['key'], kind='compile-raises',
                       what=f"{job['key']}: input request is rejected: {r['compile_error'][:300]}")
            rep.violation(rec, findings.attribute('C08', job, rec))
            continue
        for v in r['violations']:
            rec = dict(property='C08', key=job['key'], emitted_source=r['src'], job=job, **v)
            rec['what'] = f"{job['key']}: {v.get('what')}"
            rep.violation(rec, v.get('finding') or findings.attribute('C08', job, rec))
        for i in r['inconclusive']:
            rep.inconcl(dict(key=job['key'], **{k: str(x)[:300] for k, x in i.items()}))
        if verbose:
            print(job['key'], [o['verdict'] for o in r['obligations']][:12])
    # "sample k is the value used during integration step k" also depends on the kernel: each backend's fixed-step kernel
    # must hand the step counter k (the index of the input sample) to the vector field at step k, also when only every
    # store-th row is kept (harness of C03: uninterpreted, time-dependent vector field)
    from . import c03
    kj = []
    for steps, store in ((6, 2), (9, 3)) if tier == 'quick' else ((6, 2), (9, 3), (8, 2), (8, 4), (5, 1)):
        for backend, heuns, t0 in (('base', (False, True), 0), ('torch', (False,), 0), ('jax', (False, True), 0)):
            for heun in heuns:
                kj.append(dict(kind='kernel', backend=backend, heun=heun, steps=steps, store=store, rem=0, n=1, t0=t0,
                               key=f"step-counter:{backend}:{'heun' if heun else 'euler'}:steps={steps}:store={store}"))
    if only:
        kj = [j for j in kj if only in j['key']]
    alias = {}
    if kj:
        for pj, outc in runner.run_jobs(c03._alias_job, [dict(key=f"alias:{b}", backend=b) for b in ('base', 'torch', 'jax')],
                                        timeout=300):
            if outc['ok']:
                alias[pj['backend']] = outc['result']
            else:
                rep.harness_error(f"{pj['key']}: {outc['error']}")
    for j in kj:
        j['alias'] = alias.get(j['backend'])
    for job, outc in runner.run_jobs(c03.kernel_job, kj, timeout=600):
        if not outc['ok']:
            rep.harness_error(f"{job['key']}: {outc['error']} {outc.get('tb', '')[-400:]}")
            continue
        r = outc['result']
        rep.add_stats(outc['stats'])
        rep.add_tally(r['tally'])
        rep.program(job['key'], nontrivial=bool(r['tally']['obligations']))
        for v in r['violations']:
            rec = dict(property='C08', key=job['key'], job={k: str(x) for k, x in job.items()}, **v)
            rec['what'] = f"{job['key']}: {v['what']}"
            rep.violation(rec, findings.attribute('C08', job, rec))
        for i in r['inconclusive']:
            rep.inconcl(dict(key=job['key'], **{k: str(x)[:200] for k, x in i.items()}))
    return rep.finish(rule='program = (circuit, target path, input shape, N, fixed/adaptive, vectorize); fixed step: one '
                           'obligation per state variable and step k < N; adaptive: one obligation per state variable '
                           'over symbolic t in [0,T] against the interpolant on the grid j*T/(N-1)')
