"""C14 -- read-only and copy-making operations leave a template unchanged.

For each listed operation (and, in the thorough tier, each ordered pair) on flat and hierarchical templates with shared
operator/node objects and per-node overrides: the operation is performed on the in-memory template, then the template
(and a sibling template that shares its operators) is compiled with in_place=False and the emitted function is proved
equal to the reference semantics of the ORIGINAL spec (z3, all states/parameters).  A mutation of equations, values,
initial values or connectivity changes the function and is a counterexample.
"""
import copy
import itertools
import os
import warnings

import numpy as np

from .. import families, tv, tvspec, decide, tvjobs, runner
from ..spec import build_python, ModelSpec
from ..report import Report
from .c01 import FUNCS

OPS = ['run', 'get_run_func', 'get_jacobian_func', 'get_nodes', 'get_edges', 'get_edge', 'collect_edges',
       'collect_edges_delay', 'get_node_template', 'getitem', 'to_yaml', 'deepcopy', 'update_template',
       'op_update_template', 'update_var_on_copy', 'run_noclear', 'get_run_func_noclear', 'get_jacobian_func_noclear']


def first_state(spec):
    for n, ns in spec.nodes.items():
        for o in ns.ops:
            for lhs, kind, _ in spec.ops[o].eqs:
                if kind == 'de':
                    return f"{n}/{o}/{lhs}"


def do_op(ct, spec, name, vectorize):
    """performs one listed operation; whatever it returns is discarded"""
    with warnings.catch_warnings():
        warnings.simplefilter('ignore')
        nodes = list(spec.nodes)
        depth = nodes[0].count('/')
        if name == 'run':
            ct.run(simulation_time=0.5, step_size=0.25, outputs={'o': first_state(spec)}, in_place=False, verbose=False,
                   vectorize=vectorize, float_precision='float64')
        elif name == 'run_noclear':
            ct.run(simulation_time=0.75, step_size=0.25, outputs={'o': first_state(spec)}, in_place=False, verbose=False,
                   vectorize=vectorize, float_precision='float64', clear=False)
        elif name == 'get_run_func_noclear':
            ct.get_run_func('f_op2', step_size=0.25, in_place=False, verbose=False, vectorize=vectorize, clear=False,
                            float_precision='float64', file_name='op_run2')
        elif name == 'get_jacobian_func_noclear':
            ct.get_jacobian_func('j_op2', step_size=0.25, in_place=False, verbose=False, vectorize=False, clear=False,
                                 float_precision='float64', file_name='op_jac2')
        elif name == 'get_run_func':
            ct.get_run_func('f_op', step_size=0.25, in_place=False, verbose=False, vectorize=vectorize, clear=True,
                            float_precision='float64', file_name='op_run')
        elif name == 'get_jacobian_func':
            ct.get_jacobian_func('j_op', step_size=0.25, in_place=False, verbose=False, vectorize=False, clear=True,
                                 float_precision='float64', file_name='op_jac')
        elif name == 'get_nodes':
            ct.get_nodes(['all'] * (depth + 1))
            ct.get_nodes(nodes[0])
        elif name == 'get_edges':
            ct.get_edges('all', 'all')
            ct.get_edges(spec.edges[0].src, spec.edges[0].tgt)
        elif name == 'get_edge':
            e = spec.edges[0]
            try:
                ct.get_edge(e.src, e.tgt)
            except KeyError:
                pass
        elif name == 'collect_edges':
            ct.collect_edges()
            ct.collect_edges()
        elif name == 'collect_edges_delay':
            ct.collect_edges(delay_info=True)
        elif name == 'get_node_template':
            ct.get_node_template(nodes[-1])
        elif name == 'getitem':
            ct[nodes[0].split('/')[0]]
        elif name == 'to_yaml':
            d = tv.scratch_dir()
            ct.to_yaml(f"{d}/dump.yaml")
        elif name == 'deepcopy':
            c2 = copy.deepcopy(ct)
            c2.update_var(node_vars={first_state(spec): 9.25})
        elif name == 'update_template':
            e = spec.edges[0]
            if depth == 0:
                c2 = ct.update_template(edges=[(e.src, e.tgt, None, {'weight': 7.75})], name='derived')
            else:
                c2 = ct.update_template(name='derived')
            c2.update_var(node_vars={first_state(spec): 5.5})
        elif name == 'op_update_template':
            # derive an operator from a shared operator template: the base must stay as it was
            nt = ct.get_node_template(nodes[0])
            for optpl in list(nt.operators):
                optpl.update_template(name=optpl.name + '_derived', equations={'replace': {'x': 'x'}},
                                      variables={'zz_new': 1.5})
        elif name == 'update_var_on_copy':
            c2 = copy.deepcopy(ct)
            c2.update_var(node_vars={first_state(spec): 3.125})
            c2.get_run_func('f_cp', step_size=0.25, in_place=True, verbose=False, vectorize=vectorize, clear=True,
                            float_precision='float64', file_name='cp_run')


def job_fn(job):
    spec = job['spec']
    out = dict(status='ok')
    ct = build_python(spec)
    sibling = None
    if job.get('sibling'):
        # a second template that shares the OperatorTemplate objects (built from the same spec in one go)
        from ..spec import build_python as bp
        sibling = copy.copy(ct)
    wd = tv.scratch_dir()
    old = os.getcwd()
    os.chdir(wd)
    try:
        for name in job['ops']:
            try:
                do_op(ct, spec, name, job['vectorize'])
            except Exception as e:   # noqa
                return dict(status='op-raises', error=f"{name}: {type(e).__name__}: {e}")
    finally:
        os.chdir(old)
    tally = decide.Tally()
    try:
        c = tv.compile_template(ct, vectorize=job['vectorize'], in_place=False)
    except tv.CompileError as e:
        return dict(status='compile-raises', error=str(e))
    res = tvspec.validate(spec, c, tally, vectorized=job['vectorize'])
    return dict(status='ok', res=res, tally=tally.as_dict(), src=c.src, keys=list(c.keys),
                smap={k: str(v) for k, v in c.smap.items()})


def run(tier='quick', seed=0, only=None, verbose=False):
    rep = Report('C14', tier, seed, 'translation_validation', functions_encoded=FUNCS + [
        'CircuitTemplate.run/get_run_func/get_jacobian_func(in_place=False), get_nodes, get_edges, get_edge, collect_edges, '
        'get_node_template, __getitem__, to_yaml, update_template; OperatorTemplate.update_template; deepcopy (concrete)'],
        bounds=dict(operations=OPS, sequences='single operations (quick) / all ordered pairs (thorough)',
                    templates='flat with shared NodeTemplate/OperatorTemplate objects and per-node overrides; '
                              'hierarchical depth 1-2'),
        stubs=['numpy library model'],
        assumptions=['reals for floats', 'operation sequences are bounded enumeration; the solver decides function '
                     'identity per sequence', 'an operation that raises is reported separately (op-raises)'])
    base = []
    base += families.fam_equal_values()[:2]
    base += families.fam_hierarchy()[1:2] + families.fam_hierarchy()[5:6]
    base += families.fam_edge_templates()[2:3]
    base += families.fam_mixed_nodes(seed, n=2)[:1]
    base += families.fam_edge_inputs()[3:5]      # sub-circuit edges with a string-valued (node variable) attribute
    jobs = []
    for key, spec in base:
        seqs = [(o,) for o in OPS]
        if tier == 'thorough':
            seqs += [p for p in itertools.permutations(OPS, 2)]
        else:
            seqs += [('collect_edges', 'to_yaml'), ('to_yaml', 'run'), ('get_run_func', 'collect_edges_delay'),
                     ('run', 'run'), ('run_noclear', 'run_noclear'), ('get_edges', 'collect_edges')]
        for seq in seqs:
            for vec in ((True, False) if len(seq) == 1 else (True,)):
                jobs.append(dict(key=f"{key}|ops={'+'.join(seq)}|vec={vec}", spec=spec, ops=seq, vectorize=vec))
    if only:
        jobs = [j for j in jobs if only in j['key']]

    def consume(rep, jobs):
        from .. import findings
        for job, outc in runner.run_jobs(job_fn, jobs, timeout=300):
            if not outc['ok']:
                rep.harness_error(f"{job['key']}: {outc['error']} {outc.get('tb', '')[-400:]}")
                continue
            r = outc['result']
            rep.add_stats(outc['stats'])
            if r['status'] in ('op-raises', 'compile-raises'):
                rep.program(job['key'], nontrivial=False)
                rec = dict(property='C14', key=job['key'], kind=r['status'], ops=list(job['ops']),
                           spec=job['spec'].describe(), spec_blob=tvspec.spec_blob(job['spec']),
                           what=f"{job['key']}: {r['status']}: {r['error'][:300]}")
                rep.violation(rec, findings.attribute('C14', job, rec))
                continue
            rep.add_tally(r['tally'])
            res = r['res']
            rep.program(job['key'], sample=dict(key=job['key'], ops=list(job['ops']), obligations=res['obligations'][:4])
                        if rep.programs % 37 == 0 else None, nontrivial=bool(res['obligations']))
            for v in res['violations']:
                rec = dict(property='C14', key=job['key'], ops=list(job['ops']), spec=job['spec'].describe(),
                           spec_blob=tvspec.spec_blob(job['spec']), emitted_source=r['src'], **v)
                rec['what'] = f"{job['key']}: after {'+'.join(job['ops'])}: {v.get('what')}"
                rep.violation(rec, v.get('finding') or findings.attribute('C14', job, rec))
            for i in res['inconclusive']:
                rep.inconcl(dict(key=job['key'], **{k: str(x)[:200] for k, x in i.items()}))
    consume(rep, jobs)
    return rep.finish(rule='program = (template, sequence of listed non-mutating operations, vectorize); after the sequence '
                           'the SAME in-memory template is compiled with in_place=False and every state variable\'s '
                           'derivative is proved equal to the reference of the original spec')
