"""C14 -- read-only and copy-making operations leave a template unchanged.

For each listed operation (and, in the thorough tier, each ordered pair) on flat and hierarchical templates with shared
operator/node objects and per-node overrides: the operation is performed on the in-memory template, then the template
(and a sibling template that shares its operators) is compiled with in_place=False and the emitted function is proved
equal to the reference semantics of the ORIGINAL spec (z3, all states/parameters).  A mutation of equations, values,
initial values or connectivity changes the function and is a counterexample.
"""
import copy
import itertools
import os
import warnings

import numpy as np

from .. import families, tv, tvspec, decide, tvjobs, runner
from ..spec import build_python, ModelSpec
from ..report import Report
from .c01 import FUNCS

OPS = ['run', 'get_run_func', 'get_jacobian_func', 'get_nodes', 'get_edges', 'get_edge', 'collect_edges',
       'collect_edges_delay', 'get_node_template', 'getitem', 'to_yaml', 'deepcopy', 'update_template',
       'op_update_template', 'op_derive_equations_only', 'update_var_on_copy', 'run_noclear', 'get_run_func_noclear', 'get_jacobian_func_noclear',
       'derive_then_edit_inherited', 'op_alias', 'derive_then_edit_edge', 'node_derive_then_edit', 'op_override_constant']


def first_state(spec):
    for n, ns in spec.nodes.items():
        for o in ns.ops:
            for lhs, kind, _ in spec.ops[o].eqs:
                if kind == 'de':
                    return f"{n}/{o}/{lhs}"


def do_op(ct, spec, name, vectorize):
    """performs one listed operation; whatever it returns is discarded"""
    with warnings.catch_warnings():
        warnings.simplefilter('ignore')
        nodes = list(spec.nodes)
        depth = nodes[0].count('/')
        if name == 'run':
            ct.run(simulation_time=0.5, step_size=0.25, outputs={'o': first_state(spec)}, in_place=False, verbose=False,
                   vectorize=vectorize, float_precision='float64')
        elif name == 'run_noclear':
            ct.run(simulation_time=0.75, step_size=0.25, outputs={'o': first_state(spec)}, in_place=False, verbose=False,
                   vectorize=vectorize, float_precision='float64', clear=False)
        elif name == 'get_run_func_noclear':
            ct.get_run_func('f_op2', step_size=0.25, in_place=False, verbose=False, vectorize=vectorize, clear=False,
                            float_precision='float64', file_name='op_run2')
        elif name == 'get_jacobian_func_noclear':
            ct.get_jacobian_func('j_op2', step_size=0.25, in_place=False, verbose=False, vectorize=False, clear=False,
                                 float_precision='float64', file_name='op_jac2')
        elif name == 'get_run_func':
            ct.get_run_func('f_op', step_size=0.25, in_place=False, verbose=False, vectorize=vectorize, clear=True,
                            float_precision='float64', file_name='op_run')
        elif name == 'get_jacobian_func':
            ct.get_jacobian_func('j_op', step_size=0.25, in_place=False, verbose=False, vectorize=False, clear=True,
                                 float_precision='float64', file_name='op_jac')
        elif name == 'get_nodes':
            ct.get_nodes(['all'] * (depth + 1))
            ct.get_nodes(nodes[0])
        elif name == 'get_edges':
            ct.get_edges('all', 'all')
            ct.get_edges(spec.edges[0].src, spec.edges[0].tgt)
        elif name == 'get_edge':
            e = spec.edges[0]
            try:
                ct.get_edge(e.src, e.tgt)
            except KeyError:
                pass
        elif name == 'collect_edges':
            ct.collect_edges()
            ct.collect_edges()
        elif name == 'collect_edges_delay':
            ct.collect_edges(delay_info=True)
        elif name == 'get_node_template':
            ct.get_node_template(nodes[-1])
        elif name == 'getitem':
            ct[nodes[0].split('/')[0]]
        elif name == 'to_yaml':
            d = tv.scratch_dir()
            ct.to_yaml(f"{d}/dump.yaml")
        elif name == 'deepcopy':
            c2 = copy.deepcopy(ct)
            c2.update_var(node_vars={first_state(spec): 9.25})
        elif name == 'update_template':
            e = spec.edges[0]
            if depth == 0:
                c2 = ct.update_template(edges=[(e.src, e.tgt, None, {'weight': 7.75})], name='derived')
            else:
                c2 = ct.update_template(name='derived')
            c2.update_var(node_vars={first_state(spec): 5.5})
        elif name == 'derive_then_edit_inherited':
            # a template derived with NEW sub-circuits / nodes inherits the other ones: editing an inherited part of the
            # DERIVED template in place must not reach the template it was derived from
            fs = first_state(spec)
            if depth == 0:
                extra = copy.deepcopy(ct.nodes[nodes[-1]])
                c2 = ct.update_template(nodes={'zz_extra': extra}, name='derived')
                c2.nodes[nodes[0]].update_var(fs.split('/')[-2], fs.split('/')[-1], 4.75)     # public, in place
            else:
                head = fs.split('/')[0]
                extra = copy.deepcopy(ct.circuits[head])
                c2 = ct.update_template(circuits={'zz_extra': extra}, name='derived')
                c2.circuits[head].update_var(node_vars={fs[len(head) + 1:]: 4.75})
        elif name == 'op_update_template':
            # derive an operator from a shared operator template: the base must stay as it was
            nt = ct.get_node_template(nodes[0])
            for optpl in list(nt.operators):
                optpl.update_template(name=optpl.name + '_derived', equations={'replace': {'x': 'x'}},
                                      variables={'zz_new': 1.5})
        elif name == 'derive_then_edit_edge':
            # a template derived without new edges inherits them; their attributes are then edited on the DERIVED template
            top = [e for e in spec.edges if e.template is None and e.src.count('/') == 2 and e.tgt.count('/') == 2]
            c2 = ct.update_template(name='derived')
            c3 = ct.update_template(name='derived2', nodes={'zz_extra': copy.deepcopy(ct.nodes[nodes[-1]])}) if depth == 0 else None
            # (c4: derived WITH a new edge, which takes another branch of update_template; the inherited edges are edited)
            c4 = ct.update_template(name='derived3', edges=[(top[0].src, top[0].tgt, None, {'weight': 2.25})]) \
                if depth == 0 and top else None
            for e in top[:2]:
                c2.update_var(edge_vars=[(e.src, e.tgt, {'weight': 7.75})])
                if c3 is not None:
                    c3.update_var(edge_vars=[(e.src, e.tgt, {'weight': 8.75})])
            if c4 is not None:
                for e in top[1:3]:
                    if (e.src, e.tgt) != (top[0].src, top[0].tgt):
                        c4.update_var(edge_vars=[(e.src, e.tgt, {'weight': 6.75})])
        elif name == 'node_derive_then_edit':
            # a NodeTemplate derived without new operators, then edited through its public update_var
            for nn in nodes[:2]:
                o_ = spec.nodes[nn].ops[0]
                v_ = next(v for v, (k, _) in spec.ops[o_].vars.items() if k in ('state', 'const'))
                nt2 = ct.get_node_template(nn).update_template(name='derived_node')
                nt2.update_var(o_, v_, 4.25)
        elif name == 'op_override_constant':
            # a derived operator that overrides a constant of its parent, in the form the parent declares it in (number or
            # dictionary): the parent keeps its own definition
            for nn in nodes[:2]:
                for optpl in list(ct.get_node_template(nn).operators):
                    for v_, d_ in list(optpl.variables.items()):
                        if isinstance(d_, dict) and d_.get('vtype') == 'constant':
                            optpl.update_template(name=optpl.name + '_ovr', variables={v_: dict(d_, value=9.5)})
                        elif isinstance(d_, (int, float)):
                            optpl.update_template(name=optpl.name + '_ovr', variables={v_: 9.5})
        elif name == 'op_alias':
            # a renamed / re-described copy of every operator: neither equations nor variables are edited
            for nn in nodes:
                for optpl in list(ct.get_node_template(nn).operators):
                    optpl.update_template(name=optpl.name + '_alias', description='an alias')
        elif name == 'op_derive_equations_only':
            # a derived operator whose equation edit makes variables unused: the parent keeps all of its variables
            nt = ct.get_node_template(nodes[0])
            for optpl in list(nt.operators):
                consts = [v for v, d in optpl.variables.items() if not str(d).startswith(('output', 'input', 'variable'))]
                if consts:
                    optpl.update_template(name=optpl.name + '_noconst', equations={'replace': {consts[0]: '1.0'}})
        elif name == 'update_var_on_copy':
            c2 = copy.deepcopy(ct)
            c2.update_var(node_vars={first_state(spec): 3.125})
            c2.get_run_func('f_cp', step_size=0.25, in_place=True, verbose=False, vectorize=vectorize, clear=True,
                            float_precision='float64', file_name='cp_run')


def stateful_job(job):
    """The template carries a network state from an in-place simulation that was kept (clear=False).  A listed
    non-mutating operation must leave that state - and so the initial state and arguments every later get_run_func
    call starts from - exactly as it was (concrete frame condition; the function itself is covered by job_fn)."""
    spec = job['spec']
    ct = build_python(spec)
    vec = job['vectorize']
    wd = tv.scratch_dir()
    old = os.getcwd()
    os.chdir(wd)
    viol = []

    def snap():
        f, args, keys, _ = ct.get_run_func('f_snap', step_size=0.25, in_place=False, verbose=False, vectorize=vec,
                                           clear=True, float_precision='float64', file_name='snap_run')
        st = {k: np.array(v, dtype=float, copy=True) for k, v in dict(ct.state).items()}
        return [np.array(a, dtype=float, copy=True) if isinstance(a, np.ndarray) else a for a in args], list(keys), st
    try:
        with warnings.catch_warnings():
            warnings.simplefilter('ignore')
            ct.run(simulation_time=0.75, step_size=0.25, outputs={'o': first_state(spec)}, in_place=True, clear=False,
                   verbose=False, vectorize=vec, float_precision='float64')
            a0, k0, s0 = snap()
            for name in job['ops']:
                try:
                    do_op(ct, spec, name, vec)
                except Exception as e:   # noqa
                    return dict(status='op-raises', error=f"{name} (on a template that holds a kept network state): "
                                                          f"{type(e).__name__}: {e}")
            a1, k1, s1 = snap()
        if set(s0) != set(s1) or any(not np.array_equal(s0[k], s1[k]) for k in s0 if k in s1):
            viol.append(dict(kind='state-changed', what=f"template.state before {sorted(s0)}: "
                             f"{[s0[k].tolist() for k in sorted(s0)]}; after: {[s1[k].tolist() for k in sorted(s1)]}"))
        if k0 != k1:
            viol.append(dict(kind='state-changed', what=f"argument names changed: {k0} -> {k1}"))
        else:
            for k, x, y in zip(k0, a0, a1):
                same = np.array_equal(x, y) if isinstance(x, np.ndarray) else (x == y or callable(x))
                if not same:
                    viol.append(dict(kind='state-changed', what=f"argument {k} of get_run_func was {np.asarray(x).tolist()} "
                                     f"before the operation and is {np.asarray(y).tolist()} after it"))
    finally:
        os.chdir(old)
    T = decide.Tally()
    T.obligations += 1
    T.unsat += 0 if viol else 1
    return dict(status='ok', res=dict(violations=viol, inconclusive=[], obligations=[dict(var='frame', verdict='held' if not viol else 'broken')],
                                      diagnostics=[]), tally=T.as_dict(), src='', keys=[], smap={})


def job_fn(job):
    if job.get('stateful'):
        return stateful_job(job)
    spec = job['spec']
    out = dict(status='ok')
    ct = build_python(spec, dict_form=bool(job.get('dict_form')))
    sibling = None
    if job.get('sibling'):
        # a second template that shares the OperatorTemplate objects (built from the same spec in one go)
        from ..spec import build_python as bp
        sibling = copy.copy(ct)
    wd = tv.scratch_dir()
    old = os.getcwd()
    os.chdir(wd)
    try:
        for name in job['ops']:
            try:
                do_op(ct, spec, name, job['vectorize'])
            except Exception as e:   # noqa
                return dict(status='op-raises', error=f"{name}: {type(e).__name__}: {e}")
    finally:
        os.chdir(old)
    tally = decide.Tally()
    try:
        c = tv.compile_template(ct, vectorize=job['vectorize'], in_place=False)
    except tv.CompileError as e:
        return dict(status='compile-raises', error=str(e))
    res = tvspec.validate(spec, c, tally, vectorized=job['vectorize'])
    return dict(status='ok', res=res, tally=tally.as_dict(), src=c.src, keys=list(c.keys),
                smap={k: str(v) for k, v in c.smap.items()})


def run(tier='quick', seed=0, only=None, verbose=False):
    rep = Report('C14', tier, seed, 'translation_validation', functions_encoded=FUNCS + [
        'CircuitTemplate.run/get_run_func/get_jacobian_func(in_place=False), get_nodes, get_edges, get_edge, collect_edges, '
        'get_node_template, __getitem__, to_yaml, update_template; OperatorTemplate.update_template; deepcopy (concrete)'],
        bounds=dict(operations=OPS, sequences='single operations (quick) / all ordered pairs (thorough)',
                    templates='flat with shared NodeTemplate/OperatorTemplate objects and per-node overrides; '
                              'hierarchical depth 1-2; circuits of populations (derive a copy, edit the copy)'),
        stubs=['numpy library model'],
        assumptions=['reals for floats', 'operation sequences are bounded enumeration; the solver decides function '
                     'identity per sequence', 'an operation that raises is reported separately (op-raises)'])
    base = []
    base += families.fam_equal_values()[:2]
    base += families.fam_hierarchy()[1:2] + families.fam_hierarchy()[5:6]
    base += families.fam_edge_templates()[2:3]
    base += families.fam_mixed_nodes(seed, n=2)[:1]
    base += families.fam_unused_constant()       # a declared constant that only an edge reads
    base += families.fam_edge_inputs()[3:5]      # sub-circuit edges with a string-valued (node variable) attribute
    jobs = []
    for key, spec in base:
        seqs = [(o,) for o in OPS]
        if tier == 'thorough':
            seqs += [p for p in itertools.permutations(OPS, 2)]
        else:
            seqs += [('collect_edges', 'to_yaml'), ('to_yaml', 'run'), ('get_run_func', 'collect_edges_delay'),
                     ('run', 'run'), ('run_noclear', 'run_noclear'), ('get_edges', 'collect_edges')]
        for seq in seqs:
            for vec in ((True, False) if len(seq) == 1 else (True,)):
                jobs.append(dict(key=f"{key}|ops={'+'.join(seq)}|vec={vec}", spec=spec, ops=seq, vectorize=vec))
    # operators whose constants are declared in dictionary form
    for key, spec in base[:2] + base[3:4]:
        for name in ('op_override_constant', 'op_update_template', 'node_derive_then_edit', 'run'):
            jobs.append(dict(key=f"{key}|dictform|ops={name}|vec=True", spec=spec, ops=(name,), vectorize=True, dict_form=True))
    # templates that hold a kept network state (in-place run with clear=False)
    safe = ['run', 'run_noclear', 'get_run_func', 'get_run_func_noclear', 'get_jacobian_func', 'get_nodes', 'get_edges',
            'collect_edges', 'get_node_template', 'getitem', 'to_yaml', 'deepcopy', 'update_var_on_copy']
    for key, spec in base[:3]:
        for name in safe:
            for vec in ((True, False) if tier == 'thorough' else (True,)):
                if name == 'get_jacobian_func' and vec:
                    continue      # that operation compiles with vectorize=False: another layout than the kept state (loud)
                jobs.append(dict(key=f"{key}|stateful|ops={name}|vec={vec}", spec=spec, ops=(name,), vectorize=vec,
                                 stateful=True))
    if only:
        jobs = [j for j in jobs if only in j['key']]

    def consume(rep, jobs):
        from .. import findings
        for job, outc in runner.run_jobs(job_fn, jobs, timeout=300):
            if not outc['ok']:
                rep.harness_error(f"{job['key']}: {outc['error']} {outc.get('tb', '')[-400:]}")
                continue
            r = outc['result']
            rep.add_stats(outc['stats'])
            if r['status'] in ('op-raises', 'compile-raises'):
                rep.program(job['key'], nontrivial=False)
                rec = dict(property='C14', key=job['key'], kind=r['status'], ops=list(job['ops']),
                           spec=job['spec'].describe(), spec_blob=tvspec.spec_blob(job['spec']),
                           what=f"{job['key']}: {r['status']}: {r['error'][:300]}")
                rep.violation(rec, findings.attribute('C14', job, rec))
                continue
            rep.add_tally(r['tally'])
            res = r['res']
            rep.program(job['key'], sample=dict(key=job['key'], ops=list(job['ops']), obligations=res['obligations'][:4])
                        if rep.programs % 37 == 0 else None, nontrivial=bool(res['obligations']))
            for v in res['violations']:
                rec = dict(property='C14', key=job['key'], ops=list(job['ops']), spec=job['spec'].describe(),
                           spec_blob=tvspec.spec_blob(job['spec']), emitted_source=r['src'], **v)
                rec['what'] = f"{job['key']}: after {'+'.join(job['ops'])}: {v.get('what')}"
                rep.violation(rec, v.get('finding') or findings.attribute('C14', job, rec))
            for i in res['inconclusive']:
                rep.inconcl(dict(key=job['key'], **{k: str(x)[:200] for k, x in i.items()}))
    consume(rep, jobs)
    # circuits of populations (harness of C16): derive a copy without in_place, edit the copy, compile the BASE
    from . import c16
    pj = []
    for kind in ('matrix', 'scalar'):
        for i in range(2 if tier == 'quick' else 8):
            pj.append(dict(key=f"pop:{kind}:{seed}:{i}|population|derive-then-edit-copy", kind=kind, seed=seed * 100 + i,
                           build='population', vectorize=True, spec=None, derive_then_edit=True))
    if only:
        pj = [j for j in pj if only in j['key']]
    for j in pj:
        j['spec'] = c16.explicit_spec(c16.make_model(j['kind'], j['seed']))
    tvjobs.run_tv_jobs(rep, pj, verbose=verbose, fn=c16.job_fn)
    return rep.finish(rule='program = (template, sequence of listed non-mutating operations, vectorize); after the sequence '
                           'the SAME in-memory template is compiled with in_place=False and every state variable\'s '
                           'derivative is proved equal to the reference of the original spec')
