"""C19 -- DDEHistory returns the piecewise-linear interpolant of what it was given.

The real class runs under symx: record times, record values and the query time are z3 reals; comparisons made
by bisect (C code calling back into Sym.__lt__) fork the path; every path ends in SMT obligations
result == specification.  Buffer growth is crossed by lowering _INITIAL_CAPACITY through a subclass attribute
(and, in the thorough tier, at the real capacity with concrete times and symbolic values).
"""
import builtins
import itertools
import time

import numpy as np
import z3

from .. import symx, decide, runner
from ..symx import Sym
from ..report import Report

FUNCS = ['pyrates.backend.base.base_backend.DDEHistory.__init__', 'DDEHistory.update', 'DDEHistory._grow',
         'DDEHistory.__call__ (incl. bisect.bisect_right on symbolic times)']


def _bb():
    import pyrates.backend.base.base_backend as bb
    bb.float = lambda x=0.0: x if isinstance(x, Sym) else builtins.float(x)
    return bb


def _symvals(prefix, shape):
    a = np.empty(shape, dtype=object)
    if shape == ():
        a[()] = symx.real(prefix)
        return a
    for ix in np.ndindex(*shape):
        a[ix] = symx.real(prefix + ''.join(f"_{i}" for i in ix))
    return a


def spec_value(q, T, Yv, ix):
    """specification of the property: piecewise linear through (T[i], Yv[i]), clamped"""
    j = len(T) - 1
    qe = q.e
    Te = [symx.lift(t) for t in T]
    Ye = [symx.lift(y[ix]) for y in Yv]
    res = Ye[j]                                                   # q >= T_last
    for i in range(j - 1, -1, -1):
        seg = Ye[i] + (qe - Te[i]) / (Te[i + 1] - Te[i]) * (Ye[i + 1] - Ye[i])
        res = z3.If(qe < Te[i + 1], seg, res)
    res = z3.If(qe <= Te[0], Ye[0], res)
    for i in range(j + 1):
        res = z3.If(qe == Te[i], Ye[i], res)
    return Sym(res)


def scenario_job(job):
    """one scenario: N updates, queries after the updates listed in job['queries']"""
    bb = _bb()
    N, shape, cap, qpos, max_steps = job['N'], tuple(job['shape']), job['cap'], job['queries'], job.get('max_steps')
    nq = job.get('nq', 1)

    class H(bb.DDEHistory):
        _INITIAL_CAPACITY = cap

    tally = decide.Tally()
    out = dict(violations=[], inconclusive=[], paths=0, witnesses=0, growth_events=0)
    t0 = symx.real('t0')
    ts = [symx.real(f"t{i}") for i in range(1, N + 1)]
    order = [ts[0].e > t0.e] + [ts[i].e < ts[i + 1].e for i in range(N - 1)] if N else []

    def harness():
        Yv = [_symvals('y0', shape)]
        caller0 = Yv[0].copy()
        kw = {} if max_steps is None else dict(max_steps=max_steps)
        h = H(caller0, t0=t0, **kw)
        if shape:       # (0-d object arrays nest instead of copying: an artefact of dtype=object, so no mutation there)
            caller0[...] = symx.val(-777)      # later mutation of the caller's array must not matter
        T = [t0]
        results = []
        refused = None
        grow = 0
        for j in range(1, N + 1):
            yj = _symvals(f"y{j}", shape)
            mine = yj.copy()
            cap_before = len(h._y)
            try:
                h.update(ts[j - 1], mine)
            except IndexError as e:
                if max_steps is None:
                    raise
                refused = j
                results.append(('refused', j, None, None, list(T), list(Yv), None))
                continue
            if refused is not None:
                raise AssertionError(f"update {j} accepted after update {refused} was refused")
            if len(h._y) != cap_before:
                grow += 1
            if shape:
                mine[...] = symx.val(-999)
            T.append(ts[j - 1])
            Yv.append(yj)
            if j in qpos:
                for qi in range(nq):        # several queries on the same object, in any order (lookup must be stateless)
                    q = symx.real(f"q{j}" + 'abcd'[qi] * (qi > 0))
                    r = h(q)
                    results.append(('query', j, q, r, list(T), list(Yv), f"q{j}" + 'abcd'[qi] * (qi > 0)))
        if refused is not None:
            q = symx.real("qend")
            r = h(q)
            results.append(('query', N, q, r, list(T), list(Yv), 'qend'))
        return results, grow

    n_paths = 0
    out['dtype_probe'] = dtype_probe(job)
    out['violations'] += out['dtype_probe']
    if out['dtype_probe']:
        # the object-dtype records of the symbolic run would not survive either: report the concrete witness only
        out['tally'] = tally.as_dict()
        out['paths'] = 1
        return out
    for pc, res in symx.explore(harness, assumptions=order, max_paths=job.get('max_paths', 3000)):
        n_paths += 1
        if isinstance(res, BaseException):
            out['violations'].append(dict(what=f"DDEHistory raised {type(res).__name__}: {res} on a legal update/query "
                                          f"sequence", pc=[str(p) for p in pc][:12]))
            continue
        results, grow = res
        out['growth_events'] = max(out['growth_events'], grow)
        for kind, j, q, r, T, Yv, qname in results:
            if kind != 'query':
                continue
            r = np.asarray(r, dtype=object)
            if r.shape != shape:
                out['violations'].append(dict(what=f"query returned shape {r.shape}, records have shape {shape}"))
                continue
            for ix in (np.ndindex(*shape) if shape else [()]):
                cell = r[ix]
                if cell is None:
                    out['violations'].append(dict(what=f"query after update {j} read an unwritten buffer row "
                                                  f"(records lost in growth)", pc=[str(p) for p in pc][:12]))
                    continue
                ref = spec_value(q, T, Yv, ix)
                v, model = decide.prove_equal(cell, ref, pc=pc, tally=tally)
                if v == 'sat':
                    dis = decide.numeric_disagreement(cell, ref, model, pc=pc)
                    if dis is None:
                        tally.sat_spurious += 1
                        out['inconclusive'].append(dict(what='sat not reproduced numerically'))
                        continue
                    env, gv, rv_ = dis
                    rep = _replay_concrete(job, env, j, ix, qname)
                    if rep is not None and abs(rep[0] - rep[1]) > 1e-9 * max(1, abs(rep[1])):
                        tally.sat_confirmed += 1
                        out['violations'].append(dict(
                            what=f"DDEHistory query after {j} updates (shape {shape}, capacity {cap}) returns "
                                 f"{rep[0]} where the piecewise-linear interpolant is {rep[1]}",
                            env=env, component=list(ix), query_after_update=j))
                    else:
                        tally.sat_spurious += 1
                        out['inconclusive'].append(dict(what='counterexample does not reproduce on floats', env=env))
                elif v == 'unknown':
                    out['inconclusive'].append(dict(what='solver unknown'))
    out['paths'] = n_paths
    # vacuity twin: a harness whose post-condition is False must be refuted on some path
    out['witnesses'] = n_paths
    out['tally'] = tally.as_dict()
    return out


def _replay_concrete(job, env, j, ix, qname):
    """replay the scenario (updates AND the same sequence of queries) with floats on the real class; returns (got, want)
    for the query called qname"""
    import pyrates.backend.base.base_backend as bb
    N, shape, cap = job['N'], tuple(job['shape']), job['cap']
    nq = job.get('nq', 1)

    class H(bb.DDEHistory):
        _INITIAL_CAPACITY = cap
    saved = getattr(bb, 'float', None)
    if 'float' in vars(bb):
        del bb.float
    try:
        def arr(prefix):
            a = np.empty(shape, dtype=float)
            if shape == ():
                a[()] = env.get(prefix, 0.5)
                return a
            for i in np.ndindex(*shape):
                a[i] = env.get(prefix + ''.join(f"_{k}" for k in i), 0.5)
            return a
        T = [env.get('t0', 0.0)]
        for i in range(1, N + 1):
            T.append(env.get(f"t{i}", T[-1] + 1.0))
        if any(T[i] >= T[i + 1] for i in range(N)):
            return None
        kw = {} if job.get('max_steps') is None else dict(max_steps=job['max_steps'])
        Y = [arr('y0')]
        caller0 = Y[0].copy()
        h = H(caller0, t0=T[0], **kw)
        if shape:
            caller0[...] = -777.0          # the caller's arrays are overwritten after each call, as in the symbolic run
        n_ok = 0
        found = None

        def ask(name, upto):
            q = env.get(name, T[upto])
            got = float(np.asarray(h(q))[ix])
            want = float(np.interp(q, T[:upto + 1], [float(y[ix]) for y in Y[:upto + 1]]))
            return got, want
        for i in range(1, N + 1):
            Y.append(arr(f"y{i}"))
            mine = Y[i].copy()
            try:
                h.update(T[i], mine)
            except IndexError:
                Y.pop()
                break
            if shape:
                mine[...] = -999.0
            n_ok = i
            if i in job['queries']:
                for qi in range(nq):
                    name = f"q{i}" + 'abcd'[qi] * (qi > 0)
                    r = ask(name, i)
                    if name == qname:
                        return r
        if qname == 'qend':
            return ask('qend', n_ok)
        return found
    finally:
        if saved is not None:
            bb.float = saved


DTYPES = ['complex128', 'int64', 'float32']


def dtype_probe(job):
    """Concrete sentinel for the 'any dtype' clause, which the real-valued encoding cannot express (object dtype stands
    for float64 there): records of dtype complex128 / int64 / float32 must come back with exactly their
    value at the record times, across the growth events of the scenario.  Not solver-decided; reported separately."""
    import pyrates.backend.base.base_backend as bb
    N, shape, cap = job['N'], tuple(job['shape']), job['cap']
    if job.get('max_steps') is not None:
        return []

    class H(bb.DDEHistory):
        _INITIAL_CAPACITY = cap
    saved = vars(bb).pop('float', None)
    bad = []
    try:
        for dt in DTYPES:
            def rec(i):
                base = np.arange(int(np.prod(shape)) if shape else 1, dtype=float).reshape(shape) + 3 * i
                if dt == 'complex128':
                    return (base + 1j * (base + 0.5)).astype(dt)
                if dt == 'int64':
                    return (base.astype('int64') + 2 ** 40 + 1)
                return (base + 0.1).astype(dt)
            Y = [rec(0)]
            with np.errstate(all='ignore'):
                import warnings
                with warnings.catch_warnings():
                    warnings.simplefilter('ignore')
                    h = H(Y[0].copy(), t0=0.0)
                    for i in range(1, N + 1):
                        Y.append(rec(i))
                        h.update(float(i), Y[i].copy())
                    for i in range(N + 1):
                        got = np.asarray(h(float(i)))
                        if got.shape != Y[i].shape or not np.array_equal(got, Y[i]):
                            bad.append(dict(what=f"DDEHistory (capacity {cap}, {N} updates, shape {shape}): record {i} of "
                                                 f"dtype {dt} = {Y[i].tolist()} comes back as {got.tolist()} "
                                                 f"(dtype {got.dtype}) at its own record time", dtype=dt, record=i))
                            break
    finally:
        if saved is not None:
            bb.float = saved
    return bad


def big_job(job):
    """real capacity (1024 -> 2048 -> 4096): concrete increasing times, symbolic values, queries at chosen points"""
    bb = _bb()
    m = job['m']
    tally = decide.Tally()
    out = dict(violations=[], inconclusive=[], paths=1, growth_events=0)
    symx.Ctx.cur = symx.Ctx()
    ys = [symx.real(f"y{i}") for i in range(m + 1)]
    h = bb.DDEHistory(np.array([ys[0]], dtype=object), t0=0.0)
    caps = {len(h._y)}
    for i in range(1, m + 1):
        h.update(0.5 * i, np.array([ys[i]], dtype=object))
        caps.add(len(h._y))
    out['growth_events'] = len(caps) - 1
    pts = sorted(set([0, 1, 2, 1022, 1023, 1024, 1025, 2046, 2047, 2048, 2049, m - 1, m]))
    for k in pts:
        if k > m:
            continue
        for off in (0.0, 0.125, 0.375):
            q = 0.5 * k + off
            if q > 0.5 * m:
                continue
            cell = h(q)[0]
            if off == 0:
                ref = ys[k]
            else:
                ref = ys[k] + (symx.val(off) / symx.val(0.5)) * (ys[k + 1] - ys[k])
            if cell is None:
                out['violations'].append(dict(what=f"query at t={q} after {m} updates read an unwritten row"))
                continue
            v, model = decide.prove_equal(cell, ref, tally=tally)
            if v != 'unsat':
                out['violations'].append(dict(what=f"after {m} updates (two real growth events) query at t={q} "
                                              f"returns {cell} instead of {ref}"))
    out['tally'] = tally.as_dict()
    return out


# ---------------------------------------------------------------------------------------------
# float64 exactness at the record times ("exactly y_i at t = t_i"): the real-valued encoding cannot see rounding, so the
# term the real class returns for a query AT a record time is re-read in IEEE-754 double arithmetic (z3 FP theory)
# ---------------------------------------------------------------------------------------------
def _to_fp(t, sort, env):
    if z3.is_rational_value(t) or z3.is_int_value(t):
        num = t.numerator_as_long() if z3.is_rational_value(t) else t.as_long()
        den = t.denominator_as_long() if z3.is_rational_value(t) else 1
        v = z3.FPVal(float(num), sort)
        return v if den == 1 else z3.fpDiv(z3.RNE(), v, z3.FPVal(float(den), sort))
    k = t.decl().kind()
    ch = [_to_fp(c, sort, env) for c in t.children()]
    rm = z3.RNE()
    if k == z3.Z3_OP_UNINTERPRETED and not ch:
        return env.setdefault(t.decl().name(), z3.FP('fp_' + t.decl().name(), sort))
    fold = {z3.Z3_OP_ADD: z3.fpAdd, z3.Z3_OP_SUB: z3.fpSub, z3.Z3_OP_MUL: z3.fpMul}
    if k in fold:
        r = ch[0]
        for c in ch[1:]:
            r = fold[k](rm, r, c)
        return r
    if k == z3.Z3_OP_DIV:
        return z3.fpDiv(rm, ch[0], ch[1])
    if k == z3.Z3_OP_UMINUS:
        return z3.fpNeg(ch[0])
    raise ValueError(f"no float reading for {t.decl()}")


def exact_job(job):
    bb = _bb()
    N, sort = job['N'], (z3.Float64() if job.get('bits', 64) == 64 else z3.Float32())
    tally = decide.Tally()
    out = dict(violations=[], inconclusive=[], paths=0, growth_events=0)

    class H(bb.DDEHistory):
        _INITIAL_CAPACITY = 2
    for i in range(0, N + 1):
        t0 = symx.real('t0')
        ts = [symx.real(f"t{k}") for k in range(1, N + 1)]
        order = [ts[0].e > t0.e] + [ts[k].e < ts[k + 1].e for k in range(N - 1)]
        allt = [t0] + ts

        def harness():
            ys = [np.array([symx.real(f"y{k}")], dtype=object) for k in range(N + 1)]
            h = H(ys[0].copy(), t0=t0)
            for k in range(1, N + 1):
                h.update(ts[k - 1], ys[k].copy())
            return h(allt[i])[0], ys
        for pc, res in symx.explore(harness, assumptions=order):
            out['paths'] += 1
            if isinstance(res, BaseException):
                out['violations'].append(dict(what=f"query at record time {i} raised {type(res).__name__}: {res}"))
                continue
            r, ys = res
            env = {}
            try:
                rf = _to_fp(symx.lift(r), sort, env)
                yi = _to_fp(symx.lift(ys[i][0]), sort, env)
            except ValueError as ex:
                out['inconclusive'].append(dict(what=str(ex)))
                continue
            # cheap refutation first: adversarial magnitudes on the real class (a concrete, replayed witness); the solver
            # is asked for the PROOF over all finite doubles
            pre = None
            for trial in range(6):
                mags = [1e17, 3.0, 0.1, -2.5e-9, 1e22, 7.0, -4e15, 0.3]
                vals0 = {f"y{k}": mags[(k + trial) % len(mags)] for k in range(N + 1)}
                vals0.update({'t0': 0.0}, **{f"t{k}": 0.5 * k + 0.1 * (k % 2) + trial * 0.01 for k in range(1, N + 1)})
                pre = _replay_exact(N, i, vals0)
                if pre is not None:
                    tally.obligations += 1
                    tally.sat += 1
                    tally.sat_confirmed += 1
                    out['violations'].append(dict(what=f"DDEHistory query at the record time t_{i} (of {N} updates) returns "
                                                       f"{pre[0]!r} in float64, the record is {pre[1]!r} (the value is "
                                                       f"recomputed: {str(r)[:90]})", env=vals0))
                    break
            if pre is not None:
                continue
            sol = z3.Solver()
            sol.set('timeout', 120000)
            big = z3.FPVal(1e100 if job.get('bits', 64) == 64 else 1e30, sort)
            for v in env.values():
                sol.add(z3.Not(z3.fpIsNaN(v)), z3.Not(z3.fpIsInf(v)), z3.fpLEQ(z3.fpAbs(v), big))
            T = [env[n] for n in ['t0'] + [f"t{k}" for k in range(1, N + 1)] if n in env]
            for a, b in zip(T, T[1:]):
                sol.add(z3.fpLT(a, b))
            sol.add(z3.Not(z3.fpEQ(rf, yi)))
            import time as _t
            st = _t.time()
            v = str(sol.check())
            symx.STATS['queries'] += 1
            symx.STATS['solver_s'] += _t.time() - st
            tally.obligations += 1
            if v == 'unsat':
                tally.unsat += 1
            elif v == 'sat':
                tally.sat += 1
                m = sol.model()
                vals = {}
                for name, var in env.items():
                    mv = m.eval(var, model_completion=True)
                    try:
                        vals[name] = float(eval(str(mv).replace('+oo', 'float("inf")')) if '*' in str(mv) else float(str(mv).replace('+oo', 'inf')))
                    except Exception:   # noqa
                        vals[name] = None
                conf = _replay_exact(N, i, vals)
                if conf is not None:
                    tally.sat_confirmed += 1
                    out['violations'].append(dict(what=f"DDEHistory query at the record time t_{i} (of {N} updates) returns "
                                                       f"{conf[0]!r} in float64, the record is {conf[1]!r} (the value is "
                                                       f"recomputed, e.g. {str(r)[:90]})", env=vals))
                else:
                    tally.sat_spurious += 1
                    out['inconclusive'].append(dict(what='float counterexample not reproduced on the real class', env=str(vals)[:200]))
            else:
                tally.unknown += 1
                out['inconclusive'].append(dict(what='float query unknown'))
    out['tally'] = tally.as_dict()
    return out


def _replay_exact(N, i, vals):
    import pyrates.backend.base.base_backend as bb
    saved = vars(bb).pop('float', None)
    try:
        return _replay_exact2(bb, N, i, vals)
    finally:
        if saved is not None:
            bb.float = saved


def _replay_exact2(bb, N, i, vals):
    class H(bb.DDEHistory):
        _INITIAL_CAPACITY = 2
    try:
        T = [vals.get('t0')] + [vals.get(f"t{k}") for k in range(1, N + 1)]
        Y = [vals.get(f"y{k}") for k in range(N + 1)]
        if any(v is None for v in T):
            return None
        Y = [0.0 if y is None else y for y in Y]
        h = H(np.array([Y[0]]), t0=T[0])
        for k in range(1, N + 1):
            h.update(T[k], np.array([Y[k]]))
        got = float(np.asarray(h(T[i]))[0])
        if got != Y[i]:
            return got, Y[i]
    except Exception:   # noqa
        return None
    return None


def scenarios(tier):
    S = []
    shapes = [(1,), (3,), (2, 2), ()]
    nmax = 6 if tier == 'quick' else 9
    for N in range(1, nmax + 1):
        for shape in (shapes if N <= 4 else [(1,)]):
            # query after every single position; after the last update; pairs for small N
            for j in range(1, N + 1):
                S.append(dict(N=N, shape=shape, cap=2, queries=[j]))
            if N <= 3:
                for a, b in itertools.combinations(range(1, N + 1), 2):
                    S.append(dict(N=N, shape=shape, cap=2, queries=[a, b]))
    for cap in (1, 3):
        for N in (4, 5):
            S.append(dict(N=N, shape=(2,), cap=cap, queries=[N]))
    # several queries on the same object in arbitrary order (two delays in one right-hand side, rejected adaptive steps)
    for N in range(2, (5 if tier == 'quick' else 7)):
        S.append(dict(N=N, shape=(1,), cap=2, queries=[N], nq=2))
    for N in ((3, 4) if tier == 'quick' else (3, 4, 5)):
        S.append(dict(N=N, shape=(1,), cap=2, queries=[N], nq=3, max_paths=6000))
    S.append(dict(N=4, shape=(1,), cap=2, queries=[2, 4], nq=2))
    for c in range(1, 5 if tier == 'quick' else 7):
        # a query after every update forks (j+2)-fold each: all positions for short histories, the ends for long ones
        qs = list(range(1, c + 2)) if c <= 3 else [1, c, c + 1]
        S.append(dict(N=c + 1, shape=(1,), cap=2, queries=qs, max_steps=c, max_paths=8000))
    if tier == 'thorough':
        for N in (10, 12):
            S.append(dict(N=N, shape=(1,), cap=2, queries=[N], max_paths=200))
    return S


def run(tier='quick', seed=0, only=None, verbose=False):
    rep = Report('C19', tier, seed, 'model_checking', functions_encoded=FUNCS,
                 bounds=dict(updates='<=6 (quick) / <=12 (thorough) with _INITIAL_CAPACITY lowered to 1..3 by a '
                                     'subclass attribute (2-3 growth events); 2100 updates at the real capacity with '
                                     'concrete times (thorough)',
                             shapes='(), (1,), (3,), (2,2)', max_steps='1..4 (quick) / 1..6 (thorough)',
                             queries='up to three symbolic query times in arbitrary order on the same object, after any update', dtypes='complex128, int64, float32: concrete probe at the record times only (not solver-decided)'),
                 stubs=['module-level name float = identity on Sym injected into pyrates.backend.base.base_backend'],
                 assumptions=['reals for floats (no rounding)', 'record times strictly increasing, t1 > t0',
                              'object dtype stands for float64 in the symbolic runs; other dtypes only through the concrete dtype probe', 'float64-exact jobs: the returned term is re-read in IEEE double arithmetic (z3 FP theory) for finite values |v| <= 1e100, strictly increasing times'])
    jobs = scenarios(tier)
    for i, j in enumerate(jobs):
        j['key'] = f"N={j['N']} shape={j['shape']} cap={j['cap']} q={j['queries']}x{j.get('nq', 1)} max_steps={j.get('max_steps')}"
    if only:
        jobs = [j for j in jobs if only in j['key']]
    growth = 0
    for job, out in runner.run_jobs(scenario_job, jobs, timeout=600):
        if not out['ok']:
            rep.harness_error(f"{job['key']}: {out['error']} {out.get('tb', '')[-300:]}")
            continue
        r = out['result']
        rep.add_stats(out['stats'])
        rep.add_tally(r['tally'])
        growth = max(growth, r['growth_events'])
        rep.program(job['key'], sample=dict(scenario=job['key'], paths=r['paths'], obligations=r['tally']['obligations'])
                    if rep.programs % 17 == 0 else None)
        if r['paths'] < 1:
            rep.harness_error(f"{job['key']}: harness explored no path (vacuous)")
        for v in r['violations']:
            rep.violation(dict(property='C19', scenario=job, **v))
        for i in r['inconclusive']:
            rep.inconcl(dict(key=job['key'], **i))
    ej = [dict(key=f"float64-exact:N={N}", N=N) for N in ((2, 3) if tier == 'quick' else (2, 3, 4, 5))]
    if only:
        ej = [j for j in ej if only in j['key']]
    for job, out in runner.run_jobs(exact_job, ej, timeout=900):
        if not out['ok']:
            rep.harness_error(f"{job['key']}: {out['error']} {out.get('tb', '')[-300:]}")
            continue
        r = out['result']
        rep.add_stats(out['stats'])
        rep.add_tally(r['tally'])
        rep.program(job['key'], sample=dict(scenario=job['key'], paths=r['paths'], obligations=r['tally']['obligations']))
        for v in r['violations']:
            rep.violation(dict(property='C19', scenario=job, **v))
        for i in r['inconclusive']:
            rep.inconcl(dict(key=job['key'], **i))
    if tier == 'thorough':
        for job, out in runner.run_jobs(big_job, [dict(key='real-capacity m=2100', m=2100)], timeout=1200):
            if not out['ok']:
                rep.harness_error(f"{job['key']}: {out['error']}")
                continue
            r = out['result']
            rep.add_stats(out['stats'])
            rep.add_tally(r['tally'])
            rep.program(job['key'], sample=dict(scenario=job['key'], growth_events=r['growth_events']))
            for v in r['violations']:
                rep.violation(dict(property='C19', scenario=job, **v))
    return rep.finish(
        rule='scenario = (number of updates N, record shape, initial capacity, positions of symbolic queries, optional '
             'max_steps); the real DDEHistory is executed under symx once per feasible path (comparisons inside '
             'bisect fork); per path and per component one SMT obligation result == clamped piecewise-linear '
             'interpolant of the records; caller arrays are overwritten after update (copy semantics); '
             'distinct_nontrivial = distinct scenarios',
        extra_coverage=dict(max_growth_events_crossed=growth))
