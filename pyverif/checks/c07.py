"""C07 -- parameter and initial-value overrides reach exactly their targets.

Circuits whose nodes SHARE NodeTemplate / OperatorTemplate objects go through bounded sequences of override operations
(update_var scalar / per-node array / wildcard, edge-attribute updates, apply(node_values=..., edge_values=...));
the expected model is the spec with the same overrides applied to exactly the addressed (node, variable) slots.  The
compiled function is then validated against that spec: value fingerprints show where every overridden value arrived,
and z3 proves the vector field equals the expected model for all states/parameters - a value that lands on the wrong
node, or also on a sibling that shares the template, changes the term and is a counterexample.
"""
import copy
import random
from fractions import Fraction as F

import numpy as np

from .. import families, tv, tvspec, decide, tvjobs
from ..spec import OpSpec, NodeSpec, EdgeSpec, ModelSpec, FP, build_python
from ..report import Report
from .c01 import FUNCS


def base_spec(shared, hier, n=3, same_sub=False, homog=False):
    """same_sub: the two sub-circuits are identical (also their weights), so that they can be ONE CircuitTemplate object.
    hier == 2: three levels (top -> m0, m1 -> c0, c1 -> nodes); with same_sub the two mid-level circuits are one object
    as well, and so are all four leaves."""
    fp = FP()
    ops = {'o1': families.op_two_inputs(fp), 'li': families.op_leaky(fp)}
    if hier == 2:
        pre = ['m0/c0/', 'm0/c1/', 'm1/c0/', 'm1/c1/']
        n = 2
    else:
        pre = ['c0/', 'c1/'] if hier else ['']
    nodes, edges = {}, []
    wts = [fp() for _ in range(4)]
    for p in pre:
        if not same_sub:
            wts = [fp() for _ in range(4)]
        for i in range(n):
            nodes[f"{p}a{i}"] = NodeSpec(['o1'], {}, template=('TA' if shared else None))
        if homog:
            # one node type only (a wildcard then addresses nodes that all carry the operator)
            edges.append(EdgeSpec(f"{p}a0/o1/x", f"{p}a1/o1/u", wts[0]))
            edges.append(EdgeSpec(f"{p}a1/o1/x", f"{p}a2/o1/w", wts[1]))
            edges.append(EdgeSpec(f"{p}a2/o1/x", f"{p}a0/o1/u", wts[2]))
            continue
        nodes[f"{p}b0"] = NodeSpec(['li'], {}, template=('TB' if shared else None))
        if n > 2:
            nodes[f"{p}b1"] = NodeSpec(['li'], {}, template=('TB' if shared else None))
        edges.append(EdgeSpec(f"{p}a0/o1/x", f"{p}a1/o1/u", wts[0]))
        edges.append(EdgeSpec(f"{p}b0/li/x", f"{p}a0/o1/u", wts[2]))
        if n > 2:
            edges.append(EdgeSpec(f"{p}a1/o1/x", f"{p}a2/o1/w", wts[1]))
            edges.append(EdgeSpec(f"{p}a2/o1/x", f"{p}b1/li/u", wts[3]))
        else:
            edges.append(EdgeSpec(f"{p}a1/o1/x", f"{p}b0/li/u", wts[1]))
    if hier == 2:
        wm = fp()
        for m in ('m0/', 'm1/'):
            if not same_sub:
                wm = fp()
            edges.append(EdgeSpec(f"{m}c0/a1/o1/x", f"{m}c1/a0/o1/w", wm))
        edges.append(EdgeSpec("m0/c1/a1/o1/x", "m1/c0/a0/o1/w", fp()))
    return ModelSpec('m', ops, nodes, edges, note=f"shared templates={shared}, hierarchical={hier}"), fp


def addressed(spec, path):
    *node_id, op, var = path.split('/')
    out = []
    for nname in spec.nodes:
        parts = nname.split('/')
        if len(parts) == len(node_id) and all(a == 'all' or a == b for a, b in zip(node_id, parts)) \
                and op in spec.nodes[nname].ops:
            out.append(nname)
    return out, op, var


def gen_history(spec, fp, rnd, length, hier, force=None):
    """returns (ops, expected spec, compile kwargs).  Always starts by giving every state variable its own initial
    value through update_var (array form for one node type, per-node scalars for the other)."""
    exp = copy.deepcopy(spec)
    ops = []
    kw = {}
    allp = 'all/' * (int(hier) + 1)
    # distinct initial values -------------------------------------------------
    ta, _, _ = addressed(spec, f"{allp}o1/x")
    vals = [fp() for _ in ta]
    ops.append(('update_var', f"{allp}o1/x", [float(v) for v in vals]))
    for nn, v in zip(ta, vals):
        exp.nodes[nn].overrides[('o1', 'x')] = v
    tb, _, _ = addressed(spec, f"{allp}li/x") if 'li' in {o for ns in spec.nodes.values() for o in ns.ops} else ([], None, None)
    for nn in tb:
        v = fp()
        ops.append(('update_var', f"{nn}/li/x", float(v)))
        exp.nodes[nn].overrides[('li', 'x')] = v
    names = list(spec.nodes)
    for step_ in range(length):
        kind = rnd.choice(['scalar', 'scalar', 'wild-scalar', 'wild-array', 'edge', 'node_values', 'edge_values',
                           'partial-wild', 'add-edge', 'zero', 'override-twice', 'node_values-wild'])
        if force and step_ == 0:
            kind = force
        if kind == 'zero' and hier == 2:
            kind = 'scalar'
        if kind == 'node_values-wild' and any('li' in ns.ops for ns in spec.nodes.values()):
            # a wildcard in node_values must only meet nodes that carry the operator (PyRates rejects the others loudly)
            kind = 'node_values'
        if kind in ('zero', 'add-edge', 'edge', 'edge_values') and not any('li' in ns.ops for ns in spec.nodes.values()):
            kind = 'scalar'         # (these kinds address the li nodes / fixed edges of the mixed circuit)
        if kind == 'add-edge' and (hier or any(o[0] == 'add_edge_inplace' for o in ops)):
            kind = 'scalar'
        if kind == 'scalar':
            nn = rnd.choice(names)
            op = spec.nodes[nn].ops[0]
            var = rnd.choice([v for v, (k, _) in spec.ops[op].vars.items() if k == 'const'])
            v = fp()
            ops.append(('update_var', f"{nn}/{op}/{var}", float(v)))
            exp.nodes[nn].overrides[(op, var)] = v
        elif kind in ('wild-scalar', 'wild-array', 'partial-wild'):
            op = rnd.choice(['o1', 'li'])
            var = rnd.choice([v for v, (k, _) in spec.ops[op].vars.items() if k == 'const'])
            path = f"{allp}{op}/{var}"
            if kind == 'partial-wild' and hier:
                path = f"all/c1/all/{op}/{var}" if hier == 2 else f"c1/all/{op}/{var}"
            tn, _, _ = addressed(spec, path)
            if kind == 'wild-array':
                vs = [fp() for _ in tn]
                ops.append(('update_var', path, [float(v) for v in vs]))
            else:
                v = fp()
                vs = [v] * len(tn)
                ops.append(('update_var', path, float(v)))
            for nn, v in zip(tn, vs):
                exp.nodes[nn].overrides[(op, var)] = v
        elif kind == 'edge' and not hier:      # edges of a sub-circuit cannot be addressed from the top level (KeyError)
            i = rnd.randrange(len(spec.edges))
            v = fp()
            e = exp.edges[i]
            ops.append(('update_edge', e.src, e.tgt, float(v)))
            exp.edges[i] = EdgeSpec(e.src, e.tgt, v, e.delay, e.spread, e.template, e.edge_overrides)
        elif kind == 'zero':
            # the value 0 is a value: on a node that is NOT the first of its type, as scalar and inside an array
            pre = 'c1/' if hier else ''
            ops.append(('update_var', f"{pre}a1/o1/k", 0.0))
            exp.nodes[f"{pre}a1"].overrides[('o1', 'k')] = F(0)
            tn, _, _ = addressed(spec, f"{allp}li/tau")
            vs = [fp() for _ in tn]
            vs[-1] = F(1)          # li divides by tau: 1 instead of 0 there, 0 goes to the gain below
            ops.append(('update_var', f"{allp}li/tau", [float(v) for v in vs]))
            for nn, v in zip(tn, vs):
                exp.nodes[nn].overrides[('li', 'tau')] = v
            tg, _, _ = addressed(spec, f"{allp}o1/g")
            vg = [fp() for _ in tg]
            vg[1] = F(0)
            ops.append(('update_var', f"{allp}o1/g", [float(v) for v in vg]))
            for nn, v in zip(tg, vg):
                exp.nodes[nn].overrides[('o1', 'g')] = v
            kw.setdefault('node_values', {})[f"{pre}a2/o1/c"] = 0.0
            exp.nodes[f"{pre}a2"].overrides[('o1', 'c')] = F(0)
        elif kind == 'override-twice':
            # the same variable of the same node first through update_var (template level), then through
            # apply(node_values=...): the value given at translation time wins
            nn = rnd.choice(names)
            op = spec.nodes[nn].ops[0]
            var = rnd.choice([v for v, (k, _) in spec.ops[op].vars.items() if k == 'const'])
            v1, v2 = fp(), fp()
            ops.append(('update_var', f"{nn}/{op}/{var}", float(v1)))
            exp.nodes[nn].overrides[(op, var)] = v1
            kw.setdefault('node_values', {})[f"{nn}/{op}/{var}"] = float(v2)
        elif kind == 'add-edge':
            # update_template(edges=[...], in_place=True) adds an edge; the old AND the new edge stay addressable
            v, v2, v3 = fp(), fp(), fp()
            ops.append(('add_edge_inplace', 'a2/o1/x', 'a0/o1/w', float(v)))
            exp.edges.append(EdgeSpec('a2/o1/x', 'a0/o1/w', v))
            e = exp.edges[0]
            ops.append(('update_edge', e.src, e.tgt, float(v2)))
            exp.edges[0] = EdgeSpec(e.src, e.tgt, v2, e.delay, e.spread, e.template, e.edge_overrides)
            ops.append(('update_edge', 'a2/o1/x', 'a0/o1/w', float(v3)))
            exp.edges[-1] = EdgeSpec('a2/o1/x', 'a0/o1/w', v3)
        elif kind == 'node_values-wild':
            # apply(node_values=...): one key that addresses several nodes (array: one value per node, in path order),
            # followed by a key for ONE of these nodes and another variable, followed by a scalar for all of them
            op = 'o1'
            cs = [v for v, (k, _) in spec.ops[op].vars.items() if k == 'const']
            path = f"{allp}{op}/{cs[0]}"
            tn, _, _ = addressed(spec, path)
            nv = kw.setdefault('node_values', {})
            nv[path] = np.array([float(fp()) for _ in tn])
            if len(cs) > 1:
                nv[f"{tn[-1]}/{op}/{cs[1]}"] = float(fp())
                if len(cs) > 2:
                    nv[f"{allp}{op}/{cs[2]}"] = float(fp())
        elif kind == 'node_values':
            nn = rnd.choice(names)
            op = spec.nodes[nn].ops[0]
            var = rnd.choice([v for v, (k, _) in spec.ops[op].vars.items() if k == 'const'])
            v = fp()
            kw.setdefault('node_values', {})[f"{nn}/{op}/{var}"] = float(v)
            exp.nodes[nn].overrides[(op, var)] = v        # apply() runs after all update_var calls
        elif kind == 'edge_values' and not hier:
            i = rnd.randrange(len(spec.edges))
            v = fp()
            e = exp.edges[i]
            kw.setdefault('edge_values', {})[(e.src, e.tgt)] = {'weight': float(v)}
            exp.edges[i] = EdgeSpec(e.src, e.tgt, v, e.delay, e.spread, e.template, e.edge_overrides)
    # node_values given at apply time win over template values; replay them last in the expectation
    for pth, v in kw.get('node_values', {}).items():
        tn, op, var = addressed(spec, pth)
        vs = list(v) if hasattr(v, 'shape') else [v] * len(tn)
        for nn, x in zip(tn, vs):
            exp.nodes[nn].overrides[(op, var)] = F(float(x))
    for (s, t), d in kw.get('edge_values', {}).items():
        for i, e in enumerate(exp.edges):
            if (e.src, e.tgt) == (s, t):
                exp.edges[i] = EdgeSpec(e.src, e.tgt, F(d['weight']), e.delay, e.spread, e.template, e.edge_overrides)
    return ops, exp, kw


def apply_ops(ct, ops):
    for op in ops:
        if op[0] == 'update_var':
            val = np.asarray(op[2]) if isinstance(op[2], list) else op[2]
            ct.update_var(node_vars={op[1]: val})
        elif op[0] == 'update_edge':
            ct.update_var(edge_vars=[(op[1], op[2], {'weight': op[3]})])
        elif op[0] == 'add_edge_inplace':
            ct.update_template(edges=[(op[1], op[2], None, {'weight': op[3]})], in_place=True)
    return ct


def derive_job(job):
    """update_template(circuits=...) without in_place returns a NEW template: overrides applied to the derived template
    must not reach the template it was derived from (and vice versa)"""
    rnd = random.Random(job['seed'])
    spec, fp = base_spec(job['shared'], True)
    fp0 = copy.copy(fp)
    ops_init, exp_init, _ = gen_history(spec, fp0, random.Random(0), 0, True)
    ops, exp, kw = gen_history(spec, fp, rnd, job['length'], True)
    kw = {}                     # apply-time values are not part of this scenario
    n_init = len(ops_init)
    ops = [o for o in ops if o[0] == 'update_var']
    # always at least one constant and one initial value inside the sub-circuit that is NOT replaced (c0)
    ops.append(('update_var', 'c0/a1/o1/k', float(fp())))
    ops.append(('update_var', 'c0/b0/li/x', float(fp())))
    # expectation for the derived template: all update_var operations; for the base: the initialising ones only
    exp_d = copy.deepcopy(exp_init)
    for o in ops[n_init:]:
        tn, op_, var_ = addressed(spec, o[1])
        vs = o[2] if isinstance(o[2], list) else [o[2]] * len(tn)
        for nn, v in zip(tn, vs):
            exp_d.nodes[nn].overrides[(op_, var_)] = F(v)
    base_ct = build_python(spec)
    apply_ops(base_ct, ops[:n_init])
    which = job.get('derive_on', 'derived')
    derived = base_ct.update_template(name='m_derived', circuits={'c1': copy.deepcopy(base_ct.circuits['c1'])})
    if which == 'derived':
        apply_ops(derived, ops[n_init:])
        pairs = [('derived template', derived, exp_d), ('template it was derived from', base_ct, exp_init)]
    else:
        apply_ops(base_ct, ops[n_init:])
        pairs = [('template it was derived from', base_ct, exp_d), ('derived template', derived, exp_init)]
    T = decide.Tally()
    res_all = dict(violations=[], inconclusive=[], obligations=[], diagnostics=[])
    src = ''
    for label, ct, ex in pairs:
        try:
            c = tv.compile_template(ct, vectorize=job['vectorize'], in_place=False)
        except tv.CompileError as e:
            return dict(status='compile-raises', error=f"{label}: {e}", exp_spec=ex)
        res = tvspec.validate(ex, c, T, vectorized=job['vectorize'])
        for v in res['violations']:
            v['what'] = f"{label}: {v.get('what')}"
        for k in res_all:
            res_all[k] += res.get(k, [])
        src = c.src
        if any('finding' not in v for v in res['violations']):
            return dict(status='ok', res=res_all, tally=T.as_dict(), src=src, keys=list(c.keys),
                        smap={k: str(v) for k, v in c.smap.items()}, exp_spec=ex,
                        history=[str(o)[:120] for o in ops] + [f"overrides applied to the {which} template"])
    return dict(status='ok', res=res_all, tally=T.as_dict(), src=src, keys=[], smap={}, exp_spec=exp_d,
                history=[str(o)[:120] for o in ops] + [f"overrides applied to the {which} template"])


def derive_edges_job(job):
    """update_template(edges=[...]) without in_place returns a NEW template that inherits the edges of its parent: an
    edge attribute set on the derived template must change that edge of that template only (not the parent's, not that
    of a sibling derived from the same parent)"""
    spec, fp = base_spec(job['shared'], False)
    base_ct = build_python(spec)
    ops_init, spec0, _ = gen_history(spec, fp, random.Random(0), 0, False)      # (distinct initial values per node)
    apply_ops(base_ct, ops_init)
    spec = spec0
    w1, w2, wv = fp(), fp(), fp()
    d1 = base_ct.update_template(name='m_d1', edges=[('a2/o1/x', 'a0/o1/w', None, {'weight': float(w1)})])
    d2 = base_ct.update_template(name='m_d2', edges=[('a2/o1/x', 'a1/o1/w', None, {'weight': float(w2)})])
    i = job['seed'] % len(spec.edges)
    e = spec.edges[i]
    target = d1 if job.get('derive_on', 'derived') == 'derived' else base_ct
    target.update_var(edge_vars=[(e.src, e.tgt, {'weight': float(wv)})])
    exp_b, exp_1, exp_2 = copy.deepcopy(spec), copy.deepcopy(spec), copy.deepcopy(spec)
    exp_1.edges.append(EdgeSpec('a2/o1/x', 'a0/o1/w', w1))
    exp_2.edges.append(EdgeSpec('a2/o1/x', 'a1/o1/w', w2))
    (exp_1 if target is d1 else exp_b).edges[i] = EdgeSpec(e.src, e.tgt, wv, e.delay, e.spread, e.template, e.edge_overrides)
    T = decide.Tally()
    res_all = dict(violations=[], inconclusive=[], obligations=[], diagnostics=[])
    src, hist = '', [f"d1 = base.update_template(edges=[a2->a0]); d2 = base.update_template(edges=[a2->a1]); "
                     f"{'d1' if target is d1 else 'base'}.update_var(edge_vars=[({e.src}, {e.tgt}, weight)])"]
    for label, ct, ex in (('template it was derived from', base_ct, exp_b), ('sibling derived template', d2, exp_2),
                          ('derived template', d1, exp_1)):
        try:
            c = tv.compile_template(ct, vectorize=job['vectorize'], in_place=False)
        except tv.CompileError as err:
            return dict(status='compile-raises', error=f"{label}: {err}", exp_spec=ex)
        res = tvspec.validate(ex, c, T, vectorized=job['vectorize'])
        for v in res['violations']:
            v['what'] = f"{label}: {v.get('what')}"
        for k in res_all:
            res_all[k] += res.get(k, [])
        src = c.src
        if any('finding' not in v for v in res['violations']):
            return dict(status='ok', res=res_all, tally=T.as_dict(), src=src, keys=list(c.keys),
                        smap={k: str(v) for k, v in c.smap.items()}, exp_spec=ex, history=hist)
    return dict(status='ok', res=res_all, tally=T.as_dict(), src=src, keys=[], smap={}, exp_spec=exp_1, history=hist)


def job_fn(job):
    if job.get('derive_edges'):
        return derive_edges_job(job)
    if job.get('derive'):
        return derive_job(job)
    rnd = random.Random(job['seed'])
    spec, fp = base_spec(job['shared'], job['hier'], same_sub=job.get('same_sub', False), homog=job.get('homog', False))
    ops, exp, kw = gen_history(spec, fp, rnd, job['length'], job['hier'], job.get('force'))
    j = dict(job)
    j['spec'] = exp
    def pre(ct, _s):
        try:
            return apply_ops(ct, ops)
        except Exception as e:   # noqa -- a legal override operation that raises is reported, not a harness error
            raise tv.CompileError(RuntimeError(f"override operation raises {type(e).__name__}: {e} (history "
                                               f"{[str(o)[:60] for o in ops]})"))
    j['pre'] = pre
    j['compile_kw'] = kw
    # build from the BASE spec (shared templates), then apply the history
    import pyverif.tvjobs as T
    from ..spec import build_python as bp
    orig = T.build_python
    T.build_python = lambda _exp: bp(spec, share_circuits=job.get('same_sub', False))
    try:
        r = T.tv_job(j)
    finally:
        T.build_python = orig
    r['history'] = [str(o)[:120] for o in ops] + [f"apply kwargs: {kw}"]
    r['exp_spec'] = exp
    r['compile_kw'] = kw
    return r


def run(tier='quick', seed=0, only=None, verbose=False):
    rep = Report('C07', tier, seed, 'translation_validation', functions_encoded=FUNCS + [
        'CircuitTemplate.update_var (node_vars, edge_vars), apply(node_values, edge_values) (concrete)',
        'OperatorGraphTemplate.update_var / apply, OperatorTemplate.apply (concrete)'],
        bounds=dict(history_length='2 initialising + <=2 (quick) / <=5 (thorough) random operations', nodes='5 flat / 10 '
                    'hierarchical', sharing='nodes of one type share one NodeTemplate object (and every node its '
                    'OperatorTemplate) / no sharing'),
        stubs=['numpy library model'],
        assumptions=['reals for floats', 'array values are distributed one per addressed node in path (declaration) order',
                     'values given to apply(node_values/edge_values) take precedence over template values',
                     'histories are bounded enumeration/sampling; the solver decides the function per history'])
    jobs = []
    n = 10 if tier == 'quick' else 120
    for i in range(n):
        for shared in (True, False):
            hier = bool(i % 3 == 2)
            for vec in ((True, False) if tier == 'thorough' else ((True,) if i % 2 else (False,))):
                jobs.append(dict(key=f"hist:{seed}:{i}:shared={shared}:hier={hier}|vec={vec}", seed=seed * 1000 + i,
                                 shared=shared, hier=hier, length=(i % 3) if tier == 'quick' else 1 + i % 5,
                                 vectorize=vec, spec=base_spec(shared, hier)[0]))
    for i in range(2 if tier == 'quick' else 12):
        for vec in (True, False):
            jobs.append(dict(key=f"addedge:{seed}:{i}:shared={bool(i % 2)}|vec={vec}", seed=seed * 1000 + 900 + i,
                             shared=bool(i % 2), hier=False, length=1 + i % 3, vectorize=vec, force='add-edge',
                             spec=base_spec(bool(i % 2), False)[0]))
    for i in range(2 if tier == 'quick' else 12):
        for force in ('zero', 'override-twice', 'node_values-wild'):
            for vec in (True, False):
                hier = bool(i % 2)
                hm = force == 'node_values-wild'
                jobs.append(dict(key=f"{force}:{seed}:{i}:shared={bool((i // 2 + 1) % 2)}:hier={hier}|vec={vec}",
                                 seed=seed * 1000 + 700 + i, shared=bool((i // 2 + 1) % 2), hier=hier, length=1 + i % 2,
                                 vectorize=vec, force=force, homog=hm,
                                 spec=base_spec(bool((i // 2 + 1) % 2), hier, homog=hm)[0]))
    for i in range(2 if tier == 'quick' else 16):
        for vec in (True, False):
            jobs.append(dict(key=f"samesub:{seed}:{i}:shared={bool(i % 2)}|vec={vec}", seed=seed * 1000 + 300 + i,
                             shared=bool(i % 2), hier=True, length=i % 3, vectorize=vec, same_sub=True,
                             spec=base_spec(bool(i % 2), True, same_sub=True)[0]))
    for i in range(3 if tier == 'quick' else 16):
        # three levels; the mid-level circuit object sits under two keys of the top level, the leaf under two of the mid
        for vec in (True, False):
            jobs.append(dict(key=f"samesub3:{seed}:{i}:shared={bool(i % 2)}|vec={vec}", seed=seed * 1000 + 350 + i,
                             shared=bool(i % 2), hier=2, length=i % 3, vectorize=vec, same_sub=True,
                             spec=base_spec(bool(i % 2), 2, same_sub=True)[0]))
    for i in range(4 if tier == 'quick' else 40):
        for on in ('derived', 'base'):
            jobs.append(dict(key=f"derive:{seed}:{i}:on={on}|vec={bool(i % 2)}", seed=seed * 1000 + 500 + i, shared=bool(i % 3),
                             hier=True, length=1 + i % 3, vectorize=bool(i % 2), derive=True, derive_on=on,
                             spec=base_spec(bool(i % 3), True)[0]))
    for i in range(4 if tier == 'quick' else 16):
        for on in ('derived', 'base'):
            jobs.append(dict(key=f"derive-edges:{seed}:{i}:on={on}|vec={bool(i % 2)}", seed=seed * 1000 + 600 + i,
                             shared=bool(i % 3), hier=False, vectorize=bool(i % 2), derive_edges=True, derive_on=on,
                             spec=base_spec(bool(i % 3), False)[0]))
    if only:
        jobs = [j for j in jobs if only in j['key']]
    tvjobs.run_tv_jobs(rep, jobs, verbose=verbose, fn=job_fn)
    return rep.finish(rule='program = (template sharing, hierarchy, history of override operations, vectorize); obligations: '
                           'state layout/initial values by fingerprint, and per state variable emitted derivative == '
                           'reference of the spec with exactly the addressed slots overridden')
