"""C03 -- run() returns the numerical solution of the compiled system (fixed-step part).

Layer 1 (kernels): the real _solve_euler/_solve_heun of BaseBackend, TorchBackend, JaxBackend run under symx with
  an UNINTERPRETED vector field F_i(step, y) and symbolic y0 (and symbolic t0 for the base kernels); z3 proves every
  stored row equals the Euler/Heun iterate, that exactly round(T/dts) rows exist and all were written.
Layer 2 (time axis): the real BaseBackend.run under symx with symbolic reals T, step: times[k] == k*step.
Layer 3 (glue): the real CircuitTemplate.run with a tag-returning _solve stub: row r of the DataFrame carries stored
  row r + (rows dropped by cutoff), the index holds k*dts, rows with time < cutoff are dropped, the first row is the
  initial state.
Adaptive solvers are outside (DESIGN.md section 9).
"""
import builtins
import itertools
import math
import warnings
from fractions import Fraction as F

import numpy as np
import z3

from .. import symx, decide, runner, libmodels
from ..symx import Sym, SArr
from ..report import Report

FUNCS = ['pyrates.backend.base.base_backend.BaseBackend._solve_euler', 'BaseBackend._solve_heun',
         'pyrates.backend.torch.torch_backend.TorchBackend._solve_euler',
         'pyrates.backend.jax.jax_backend.JaxBackend._solve_euler', 'JaxBackend._solve_heun',
         'BaseBackend.run (time axis)', 'CircuitTemplate.run tail (concrete, tag flow)']


def uf_field(n):
    Fs = [symx.UF(f"F{i}", n + 1) for i in range(n)]

    def func(step, y, *args):
        st = symx.lift(step)
        ys = [symx.lift(v) for v in np.asarray(y, dtype=object).reshape(-1)]
        return SArr([Sym(Fs[i](st, *ys)) for i in range(n)])
    return Fs, func


def ref_iter(Fs, y0, t0, dt, k, heun):
    n = len(y0)
    y = list(y0)
    dtv = symx.rv(dt)
    for s in range(k):
        st = t0 + s
        f = [Fs[i](st, *y) for i in range(n)]
        if heun:
            yp = [y[i] + dtv * f[i] for i in range(n)]
            f2 = [Fs[i](st, *yp) for i in range(n)]
            y = [y[i] + dtv / 2 * (f[i] + f2[i]) for i in range(n)]
        else:
            y = [y[i] + dtv * f[i] for i in range(n)]
    return y


def _kernel(backend, heun):
    if backend == 'base':
        from pyrates.backend.base.base_backend import BaseBackend
        return BaseBackend._solve_heun if heun else BaseBackend._solve_euler
    if backend == 'torch':
        import pyrates.backend.torch.torch_backend as tb
        m = libmodels.make_modules()['torch']

        def empty(shape, dtype=None):
            return SArr(np.empty(shape, dtype=object))
        m.empty = empty
        tb.torch = m
        return tb.TorchBackend._solve_euler
    if backend == 'jax':
        import pyrates.backend.jax.jax_backend as jb
        mods = libmodels.make_modules()
        jnp = mods['jax.numpy']

        def asarray(x, dtype=None):
            if isinstance(x, np.ndarray) and x.dtype == object:
                return x
            if isinstance(x, Sym):
                return x
            return np.asarray(x, dtype=dtype)
        jnp.asarray = asarray
        jb.jnp = jnp
        jb.jax = mods['jax']
        be = object.__new__(jb.JaxBackend)
        return be._solve_heun if heun else be._solve_euler
    raise ValueError(backend)


def kernel_job(job):
    backend, heun = job['backend'], job['heun']
    steps, store, rem, n = job['steps'], job['store'], job['rem'], job['n']
    dt = F(1, 4)
    T = steps * dt + rem * dt / 8
    dts = store * dt
    tally = decide.Tally()
    out = dict(violations=[], inconclusive=[])
    symx.Ctx.cur = symx.Ctx()
    Fs, func = uf_field(n)
    y0 = [z3.Real(f"y0_{i}") for i in range(n)]
    y = SArr([Sym(v) for v in y0])
    if job['t0'] == 'sym':
        t0 = symx.real('t0')
        t0e = t0.e
    else:
        t0 = np.asarray(job['t0'], dtype=np.int32)
        t0e = z3.RealVal(int(job['t0']))
    want_rows = round(F(T) / F(dts))      # round half to even on exact rationals
    try:
        rec = _kernel(backend, heun)(func, (), float(T), float(dt), float(dts), y, t0)
    except Exception as e:   # noqa
        # replay with a concrete vector field on floats
        msg = _replay_kernel(job, float(T), float(dt), float(dts))
        if msg is not None:
            out['violations'].append(dict(what=f"{backend} {'heun' if heun else 'euler'} kernel raises for T={float(T)} "
                                          f"dt={float(dt)} dts={float(dts)}: {msg}",
                                          finding_hint='rows-overflow' if isinstance(e, IndexError) else None))
        else:
            out['inconclusive'].append(dict(what=f"symbolic run raised {type(e).__name__}: {e} but floats do not"))
        out['tally'] = tally.as_dict()
        return out
    rec = np.asarray(rec, dtype=object)
    if rec.shape[0] != want_rows:
        out['violations'].append(dict(what=f"{backend} kernel returns {rec.shape[0]} rows, round(T/dts)={want_rows}"))
    for k in range(min(rec.shape[0], want_rows)):
        ref = ref_iter(Fs, y0, t0e, dt, k * store, heun)
        for i in range(n):
            cell = rec[k, i]
            if cell is None:
                out['violations'].append(dict(what=f"{backend} kernel: row {k} was never written"))
                continue
            v, model = decide.prove_equal(cell, Sym(ref[i]), tally=tally)
            if v == 'sat':
                conf = _replay_rows(job, float(T), float(dt), float(dts), k, i)
                if conf is None:
                    tally.sat_spurious += 1
                    out['inconclusive'].append(dict(what=f"row {k}: solver counterexample not reproduced on floats"))
                    continue
                tally.sat_confirmed += 1
                out['violations'].append(dict(
                    what=f"{backend} {'heun' if heun else 'euler'} kernel: stored row {k} (steps={steps}, store every "
                         f"{store}) is not the {k * store}-th iterate: real kernel gives {conf[0]}, iterate is {conf[1]} "
                         f"for f_i(t,y)=sin(1.3*y_i+0.7*t+i)+0.2*sum(y)",
                    gen=str(cell)[:300], ref=str(ref[i])[:300]))
            elif v == 'unknown':
                out['inconclusive'].append(dict(what='unknown'))
        if k == 1 and not decide.twin_check(rec[k, 0], Sym(ref[0]), tally=tally):
            out['inconclusive'].append(dict(what='vacuity twin not refuted'))
    out['tally'] = tally.as_dict()
    return out


def _replay_kernel(job, T, dt, dts):
    """concrete float replay with f(t, y) = -y + t on the real kernel; returns exception text or None"""
    import importlib
    backend = job['backend']
    try:
        if backend == 'base':
            from pyrates.backend.base.base_backend import BaseBackend
            k = BaseBackend._solve_heun if job['heun'] else BaseBackend._solve_euler
            k(lambda t, y: -y + 0.1 * t, (), T, dt, dts, np.ones(job['n']), 0)
        elif backend == 'torch':
            import torch
            import pyrates.backend.torch.torch_backend as tb
            importlib.reload(tb)
            tb.TorchBackend._solve_euler(lambda t, y: -y + 0.1 * t, (), T, dt, dts, torch.ones(job['n'], dtype=torch.float64), 0)
        else:
            return None
    except Exception as e:   # noqa
        return f"{type(e).__name__}: {e}"
    return None


def _replay_rows(job, T, dt, dts, k, i):
    """float replay of row k, component i on the real kernel with a concrete non-autonomous vector field"""
    import importlib
    n, heun, backend = job['n'], job['heun'], job['backend']
    t0 = 2 if job['t0'] == 'sym' else int(job['t0'])

    def f_np(t, y, *a):
        t = float(np.asarray(t))
        y = np.asarray(y, dtype=float)
        return np.array([math.sin(1.3 * y[j] + 0.7 * t + j) + 0.2 * y.sum() for j in range(n)])
    y0 = np.linspace(0.3, 0.9, n)
    try:
        if backend == 'base':
            from pyrates.backend.base.base_backend import BaseBackend
            kern = BaseBackend._solve_heun if heun else BaseBackend._solve_euler
            rec = kern(f_np, (), T, dt, dts, y0.copy(), t0)
        elif backend == 'torch':
            import torch
            import pyrates.backend.torch.torch_backend as tb
            importlib.reload(tb)
            rec = tb.TorchBackend._solve_euler(lambda t, y, *a: torch.as_tensor(f_np(t, y.numpy())), (), T, dt, dts,
                                               torch.as_tensor(y0.copy()), t0)
        else:
            import jax
            jax.config.update("jax_enable_x64", True)
            import jax.numpy as jnp
            import pyrates.backend.jax.jax_backend as jb
            importlib.reload(jb)
            be = object.__new__(jb.JaxBackend)

            def f_j(t, y, *a):
                return jnp.stack([jnp.sin(1.3 * y[j] + 0.7 * t + j) + 0.2 * y.sum() for j in range(n)])
            rec = (be._solve_heun if heun else be._solve_euler)(f_j, (), T, dt, dts, jnp.asarray(y0), np.asarray(t0))
    except Exception as e:   # noqa
        return (f"raised {type(e).__name__}: {e}", None)
    y = y0.copy()
    for s_ in range(k * job['store']):
        f1 = f_np(t0 + s_, y)
        if heun:
            f2 = f_np(t0 + s_, y + dt * f1)
            y = y + dt / 2 * (f1 + f2)
        else:
            y = y + dt * f1
    got = float(np.asarray(rec)[k, i])
    if abs(got - y[i]) > 1e-9 * max(1.0, abs(y[i])):
        return got, float(y[i])
    return None


def time_axis_job(job):
    """BaseBackend.run under symx: symbolic T, step; _solve stubbed; times[k] == k*step ?"""
    import pyrates.backend.base.base_backend as bb
    tally = decide.Tally()
    out = dict(violations=[], inconclusive=[], paths=0)
    be = object.__new__(bb.BaseBackend)
    be._solve = lambda **kw: 'REC'
    T, step = symx.real('T'), symx.real('step')
    use_dts = job['use_dts']
    assume = [T.e > 0, step.e > 0, T.e / step.e <= symx.INT_BOUND, T.e / step.e >= F(1, 2)]
    if job['multiple']:
        kk = z3.Int('kmult')
        assume += [T.e == z3.ToReal(kk) * step.e, kk >= 1]

    def harness():
        dt = symx.val(F(1, 8))
        res, times = be.run(func=None, func_args=(0, None), T=T, dt=(dt if use_dts else step),
                            dts=(step if use_dts else None), solver='euler')
        return times

    seen_n = set()
    for pc, times in symx.explore(harness, assumptions=assume):
        out['paths'] += 1
        if isinstance(times, BaseException):
            out['violations'].append(dict(what=f"BaseBackend.run raised {type(times).__name__}: {times}"))
            continue
        n = len(times)
        seen_n.add(n)
        for k in range(n):
            v, model = decide.prove_equal(times[k], step * k, pc=pc, tally=tally)
            if v == 'sat':
                env = decide.model_env(model, ['T', 'step'])
                # replay on floats with the real function
                be2 = object.__new__(bb.BaseBackend)
                be2._solve = lambda **kw: None
                _, tf = bb.BaseBackend.run(be2, None, (0, None), env['T'], env['step'] if not use_dts else 0.125,
                                           env['step'] if use_dts else None, 'euler')
                if len(tf) > k and abs(tf[k] - k * env['step']) > 1e-9:
                    out['violations'].append(dict(
                        what=f"time axis: index entry {k} is {tf[k]} but row {k} holds the state at k*step = "
                             f"{k * env['step']} (T={env['T']}, step={env['step']}, multiple={job['multiple']})",
                        T=env['T'], step=env['step'], k=k, finding_hint='time-axis'))
                    break
                else:
                    out['inconclusive'].append(dict(what='time-axis counterexample not reproduced', env=env))
            elif v == 'unknown':
                out['inconclusive'].append(dict(what='unknown'))
    out['n_values'] = sorted(seen_n)
    out['tally'] = tally.as_dict()
    return out


# ---------------------------------------------------------------------------------------------
# layer 3: tag flow through the real CircuitTemplate.run
# ---------------------------------------------------------------------------------------------
TAG = 2 ** 20


def glue_job(job):
    from pyrates import CircuitTemplate
    import pyrates.backend.base.base_backend as bb
    from ..spec import build_python
    from .. import families, tv
    import os
    import shutil
    out = dict(violations=[], checked=0)
    spec = job['spec']
    ct = build_python(spec)
    T, dt, dts, cutoff = job['T'], job['dt'], job['dts'], job['cutoff']
    captured = {}

    def stub(self, solver, func, args, T, dt, dts, y0, t0, times, **kw):
        steps = int(np.round(T / dts))
        ny = int(np.size(y0))
        rec = np.zeros((steps, ny))
        for k in range(steps):
            rec[k, :] = k * TAG + np.arange(ny)
        captured['y0'] = np.array(y0, copy=True)
        captured['ny'] = ny
        return rec
    orig = bb.BaseBackend._solve
    bb.BaseBackend._solve = stub
    wd = tv.scratch_dir()
    old = os.getcwd()
    os.chdir(wd)
    try:
        with warnings.catch_warnings():
            warnings.simplefilter('ignore')
            outputs = {f"o{i}": f"{n}/{o}/{v}" for i, (n, o, v) in enumerate(job['outvars'])}
            df = ct.run(simulation_time=T, step_size=dt, sampling_step_size=dts, cutoff=cutoff, solver='euler',
                        outputs=outputs, vectorize=job['vectorize'], verbose=False, float_precision='float64',
                        in_place=False)
    except Exception as e:   # noqa
        out['violations'].append(dict(what=f"run() raised {type(e).__name__}: {e}"))
        return out
    finally:
        bb.BaseBackend._solve = orig
        os.chdir(old)
        shutil.rmtree(wd, ignore_errors=True)
    n_rows = round(F(T) / F(dts))
    kept = [k for k in range(n_rows) if F(k) * F(dts) >= F(cutoff)]
    vals = np.asarray(df.values)
    if vals.shape[0] != len(kept):
        out['violations'].append(dict(what=f"run(T={T}, dt={dt}, dts={dts}, cutoff={cutoff}) returns {vals.shape[0]} "
                                      f"rows; rows with time >= cutoff among round(T/dts)={n_rows}: {len(kept)}"))
        return out
    idx = np.asarray(df.index, dtype=float)
    for r, k in enumerate(kept):
        out['checked'] += 1
        if abs(idx[r] - float(F(k) * F(dts))) > 1e-12:
            out['violations'].append(dict(what=f"index of row {r} is {idx[r]}, stored row {k} is the state at "
                                          f"{float(F(k) * F(dts))} (T={T}, dts={dts}, cutoff={cutoff})",
                                          finding_hint='time-axis'))
            break
        row_tags = vals[r] // TAG
        if not np.all(row_tags == k):
            out['violations'].append(dict(what=f"DataFrame row {r} carries stored row(s) {sorted(set(row_tags))}, "
                                          f"expected {k}"))
            break
    return out


def run(tier='quick', seed=0, only=None, verbose=False):
    from .. import families
    rep = Report('C03', tier, seed, 'model_checking', functions_encoded=FUNCS,
                 bounds=dict(steps='1..8 (quick) / 1..14 (thorough)', store_step='1..4 / 1..6', state_dim='1..2 / 1..3',
                             T='steps*dt + r*dt/8, r in {-3,0,3} (so T need not be a multiple of dt or dts)',
                             dt='1/4 (concrete, dyadic)', t0='symbolic (base kernels); concrete 0, 3 (torch, jax)',
                             time_axis=f'T/step <= {symx.INT_BOUND}, symbolic reals',
                             adaptive_solvers='NOT covered (third-party compiled integrators)'),
                 stubs=['vector field = uninterpreted functions F_i(step, y)', 'torch.empty -> object array',
                        'jax.lax.scan -> documented reference loop; jnp.asarray -> identity on symbolic arrays',
                        'BaseBackend._solve replaced by a tag-returning stub for layers 2/3'],
                 assumptions=['reals for floats', 'sampling_step_size is an integer multiple of step_size',
                              'adaptive solvers (scipy, diffrax) are not claimed'])
    smax, stmax, nmax = (8, 4, 2) if tier == 'quick' else (14, 6, 3)
    jobs = []
    for steps in range(1, smax + 1):
        for store in range(1, min(stmax, steps) + 1):
            for rem in (0, 3, -3):
                for heun in (False, True):
                    jobs.append(dict(kind='kernel', backend='base', heun=heun, steps=steps, store=store, rem=rem,
                                     n=1 + (steps + store) % nmax, t0='sym'))
                if rem == 0 or tier == 'thorough':
                    for t0 in (0, 3):
                        jobs.append(dict(kind='kernel', backend='torch', heun=False, steps=steps, store=store, rem=rem,
                                         n=1 + steps % nmax, t0=t0))
                        for heun in (False, True):
                            jobs.append(dict(kind='kernel', backend='jax', heun=heun, steps=steps, store=store, rem=rem,
                                             n=1 + steps % nmax, t0=t0))
    for j in jobs:
        j['key'] = f"kernel:{j['backend']}:{'heun' if j['heun'] else 'euler'}:steps={j['steps']}:store={j['store']}:rem={j['rem']}:t0={j['t0']}"
    if only:
        jobs = [j for j in jobs if only in j['key']]
    _consume(rep, kernel_job, jobs, 'kernels')

    tjobs = [dict(key=f"time-axis:use_dts={u}:multiple={m}", use_dts=u, multiple=m) for u in (True, False)
             for m in (True, False)]
    if only:
        tjobs = [j for j in tjobs if only in j['key']]
    _consume(rep, time_axis_job, tjobs, 'time_axis')

    # layer 3
    progs = families.fam_hierarchy()[:2] + families.fam_mixed_nodes(seed, n=2) + families.fam_edges_two_nodes(1, 2)[:3]
    gjobs = []
    grid = [(F(2), F(1, 4), F(1, 4)), (F(2), F(1, 4), F(1, 2)), (F(3), F(1, 8), F(1, 2)), (F(9, 4), F(1, 4), F(1, 2))]
    if tier == 'thorough':
        grid += [(F(5, 2), F(1, 4), F(3, 4)), (F(4), F(1, 8), F(3, 8)), (F(11, 4), F(1, 4), F(1, 2))]
    for key, spec in progs:
        outvars = []
        for n, ns in spec.nodes.items():
            for o in ns.ops:
                for lhs, kind, e in spec.ops[o].eqs:
                    if kind == 'de':
                        outvars.append((n, o, lhs))
        for (T, dt, dts) in grid:
            for cutoff in (F(0), dts, dts * 2, dts * 2 - dt / 2, dts / 3, T - dts):
                for vec in (True, False):
                    gjobs.append(dict(key=f"glue:{key}:T={T}:dt={dt}:dts={dts}:cutoff={cutoff}:vec={vec}", spec=spec,
                                      T=float(T), dt=float(dt), dts=float(dts), cutoff=float(cutoff), vectorize=vec,
                                      outvars=outvars[:3]))
    if tier == 'quick':
        gjobs = gjobs[::3]
    if only:
        gjobs = [j for j in gjobs if only in j['key']]
    for job, outc in runner.run_jobs(glue_job, gjobs, timeout=300):
        if not outc['ok']:
            rep.harness_error(f"{job['key']}: {outc['error']} {outc.get('tb', '')[-300:]}")
            continue
        r = outc['result']
        rep.program(job['key'], sample=dict(key=job['key'], rows_checked=r['checked']) if rep.programs % 41 == 0 else None)
        rep.section('glue', runs=1, rows_checked=r['checked'])
        for v in r['violations']:
            _violation(rep, job, v)
    rep.extra['discharged_other'] = rep.sections.get('glue', {}).get('rows_checked', 0)
    return rep.finish(
        rule='kernel program = (backend kernel, euler|heun, steps, store_step, remainder of T, state dimension, t0); the '
             'real kernel runs on symbolic y0 with an uninterpreted vector field, one SMT obligation per stored cell; '
             'time-axis: BaseBackend.run explored over all feasible round(T/step) in 1..12; glue: concrete tag-flow '
             'runs of the real CircuitTemplate.run over (T, dt, dts, cutoff) grids. distinct_nontrivial = distinct '
             'job keys.')


def _violation(rep, job, v):
    from .. import findings
    rec = dict(property='C03', key=job['key'], job={k: (str(x) if not isinstance(x, (int, float, str, bool)) else x)
                                                     for k, x in job.items() if k != 'spec'}, **v)
    rec['what'] = f"{job['key']}: {v['what']}"
    rep.violation(rec, findings.attribute('C03', job, rec))


def _consume(rep, fn, jobs, section):
    for job, outc in runner.run_jobs(fn, jobs, timeout=600):
        if not outc['ok']:
            rep.harness_error(f"{job['key']}: {outc['error']} {outc.get('tb', '')[-400:]}")
            continue
        r = outc['result']
        rep.add_stats(outc['stats'])
        rep.add_tally(r['tally'])
        rep.program(job['key'], sample=dict(key=job['key'], obligations=r['tally']['obligations'])
                    if rep.programs % 53 == 0 else None)
        rep.section(section, jobs=1, obligations=r['tally']['obligations'], paths=r.get('paths', 1))
        for v in r['violations']:
            _violation(rep, job, v)
        for i in r['inconclusive']:
            rep.inconcl(dict(key=job['key'], **{k: str(x)[:200] for k, x in i.items()}))
