"""C06 -- a variable path addresses the same variable everywhere (outputs of run()).

The real CircuitTemplate.run is executed with a _solve stub that (a) captures the compiled function, its arguments and
the emitted source and (b) returns the tag matrix rec[k, i] = k*2^20 + i.  The captured function goes through the
usual translation validation (z3 proves gen[pos(V)] == reference derivative of V with per-node distinct symbols, so
the IDENTITY of the variable at every state position is decided semantically); the returned DataFrame reveals which
state index every column carries.  Obligation: the set of columns is exactly the set of requested variables and the
column labelled with variable V carries index pos(V).
"""
import itertools
import os
import shutil
import warnings

import numpy as np
from pyverif.tv import tv_to_np

from .. import families, tv, tvspec, decide, runner, findings
from ..spec import ModelSpec, NodeSpec, build_python
from ..report import Report
from .c01 import FUNCS

TAG = 2 ** 20


def resolve(spec, path):
    """variables addressed by 'a/b/.../op/var' with 'all' wildcards, in declaration order"""
    *node_id, op, var = path.split('/')
    out = []
    for n in spec.nodes:
        parts = n.split('/')
        if len(parts) == len(node_id) and all(a == 'all' or a == b for a, b in zip(node_id, parts)) \
                and op in spec.nodes[n].ops and var in spec.ops[op].vars:
            out.append((n, op, var))
    return out


def expected_columns(spec, outputs):
    """label (str | tuple) -> variable"""
    exp = {}
    if isinstance(outputs, dict):
        multi = any(len(resolve(spec, p)) > 1 for p in outputs.values())
        for key, p in outputs.items():
            vs = resolve(spec, p)
            if len(vs) == 1:
                exp[key] = vs[0]
            else:
                for (n, o, v) in vs:
                    exp[(key,) + tuple(n.split('/')) + (f"{o}/{v}",)] = (n, o, v)
    else:
        for p in outputs:
            for (n, o, v) in resolve(spec, p):
                exp[f"{n}/{o}/{v}"] = (n, o, v)
    return exp


def _norm_label(c):
    if isinstance(c, tuple):
        c = tuple(x for x in c if not (isinstance(x, float) and np.isnan(x)) and x != '')
        return c if len(c) > 1 else c[0]
    return c


def job_fn(job):
    import pyrates.backend.base.base_backend as bb
    spec, outputs, vec = job['spec'], job['outputs'], job['vectorize']
    ct = build_python(spec, share_circuits=job.get('same_sub', False))
    if job.get('update'):
        # the same path notation in update_var: the value must arrive on exactly the addressed node(s)
        import copy
        from fractions import Fraction
        spec = copy.deepcopy(spec)
        for path, val in job['update']:
            tn = resolve(spec, path)
            vals = list(val) if isinstance(val, (list, tuple)) else [val] * len(tn)
            ct.update_var(node_vars={path: np.array([float(x) for x in vals]) if isinstance(val, (list, tuple))
                                     else float(val)})
            for (n, o, v), x in zip(tn, vals):
                spec.nodes[n].overrides[(o, v)] = Fraction(x)
    cap = {}

    def stub(self, solver, func, args, T, dt, dts, y0, t0, times, **kw):
        steps = int(np.round(T / dts))
        ny = int(np.size(y0))
        rec = np.zeros((steps, ny))
        for k in range(steps):
            rec[k, :] = k * TAG + np.arange(ny)
        names = func.__code__.co_varnames[:func.__code__.co_argcount]
        path = func.__code__.co_filename
        cap.update(func=func, args=(t0, np.array(y0, copy=True)) + tuple(args), keys=tuple(names),
                   src=open(path).read() if os.path.exists(path) else '')
        return rec
    orig = bb.BaseBackend._solve
    bb.BaseBackend._solve = stub
    wd = tv.scratch_dir()
    old = os.getcwd()
    os.chdir(wd)
    out = dict(violations=[], inconclusive=[], obligations=[], src='', columns=[])
    tally = decide.Tally()
    try:
        with warnings.catch_warnings():
            warnings.simplefilter('ignore')
            try:
                df = ct.run(simulation_time=0.75, step_size=0.25, outputs=outputs, vectorize=vec, verbose=False,
                            in_place=False, float_precision='float64', solver='euler', clear=False,
                            **job.get('run_kw', {}))
            except Exception as e:   # noqa
                out['compile_error'] = f"{type(e).__name__}: {e}"
                out['tally'] = tally.as_dict()
                return out
        c = tv.Compiled(cap['func'], cap['args'], cap['keys'], {}, cap['src'], cap['func'].__name__, 'default', wd)
        out['src'] = c.src
        # TV of the captured function: identity of the variable at every position
        smap = {}
        plugin = None
        if any(e.spread is not None for e in spec.edges):
            from .. import tvdelay
            plugin = tvdelay.ChainPlugin()
        res = tvspec.validate(spec, _with_smap(c, spec), tally, vectorized=True, plugin=plugin,
                              t_sym=(1 if plugin else None))
        out['violations'] += res['violations']
        out['inconclusive'] += res['inconclusive']
        out['obligations'] = res['obligations']
        if res['violations']:
            out['tally'] = tally.as_dict()
            return out
        syms = tvspec.Symbols(spec)
        pos, ny = tvspec._positions(c, syms)
        exp = expected_columns(spec, outputs)
        got = {}
        vals = np.asarray(df.values)
        for j, col in enumerate(df.columns):
            lab = _norm_label(col)
            tags = set(int(x) % TAG for x in vals[:, j])
            got[lab] = tags
        out['columns'] = [str(k) for k in got]
        missing = [k for k in exp if k not in got]
        extra = [k for k in got if k not in exp]
        if missing or extra:
            out['violations'].append(dict(kind='columns', what=f"outputs={outputs}: requested variables "
                                          f"{sorted(map(str, exp))} but the DataFrame has columns {sorted(map(str, got))} "
                                          f"(missing {missing}, unexpected {extra})"))
        for lab, var in exp.items():
            if lab not in got:
                continue
            want = pos[var][0]
            if got[lab] != {want}:
                carried = [k for k, p in pos.items() if p and p[0] in got[lab]]
                out['violations'].append(dict(kind='column-content', what=f"outputs={outputs}: column {lab} names "
                                              f"{'/'.join(var)} (state index {want}) but carries state index "
                                              f"{sorted(got[lab])} = {['/'.join(k) for k in carried]}"))
            else:
                tally.obligations += 1
                tally.unsat += 0
    finally:
        bb.BaseBackend._solve = orig
        os.chdir(old)
        shutil.rmtree(wd, ignore_errors=True)
    out['tally'] = tally.as_dict()
    return out


def _with_smap(c, spec):
    """run() exposes no state map; give validate() the trivial one (every position its own entry) so that only the
    fingerprint-based layout obligations apply"""
    ny = int(np.asarray(tv_to_np(c.args[1])).size)
    c.smap = {f"__pos{j}": j for j in range(ny)}
    return c


def permuted(spec, perm):
    names = list(spec.nodes)
    nodes = {names[i]: spec.nodes[names[i]] for i in perm}
    return ModelSpec(spec.name, spec.ops, nodes, spec.edges, spec.edge_tpls, note=spec.note + f" order {perm}")


def requests_for(spec):
    names = list(spec.nodes)
    depth = names[0].count('/')
    some = names[-1]
    svs = []
    for n in names:
        for o in spec.nodes[n].ops:
            for lhs, kind, _ in spec.ops[o].eqs:
                if kind == 'de':
                    svs.append((n, o, lhs))
    last = svs[-1]
    first = svs[0]
    allp = '/'.join(['all'] * (depth + 1))
    R = [
        {'a': '/'.join(last)},
        {'a': '/'.join(first), 'b': '/'.join(last)},
        ['/'.join(last)],
        ['/'.join(first), '/'.join(last)],
        {'w': f"{allp}/{last[1]}/{last[2]}"},
        [f"{allp}/{first[1]}/{first[2]}"],
        {'w': f"{allp}/{first[1]}/{first[2]}", 's': '/'.join(last)},
    ]
    if depth >= 1:
        head = last[0].split('/')[0]
        R.append({'h': f"{head}/{'/'.join(['all'] * depth)}/{last[1]}/{last[2]}"})
        R.append([f"all/{'/'.join(last[0].split('/')[1:])}/{last[1]}/{last[2]}"])
    return R


def run(tier='quick', seed=0, only=None, verbose=False):
    rep = Report('C06', tier, seed, 'translation_validation', functions_encoded=FUNCS + [
        'CircuitTemplate.run: get_variable_positions / _get_var_idx / _relabel_var / MultiIndex construction (concrete, '
        'tag flow)', 'CircuitTemplate.get_nodes / _get_nodes_with_var (concrete)'],
        bounds=dict(nodes='<=4 flat (all 24 declaration orders in thorough) / <=6 hierarchical', requests='dict and list, '
                    'single, several keys, all at every level, partial wildcards', vectorize='on/off'),
        stubs=['BaseBackend._solve replaced by a capturing, tag-returning stub (monkey-patched from the harness)'],
        assumptions=['reals for floats', 'a column label names a variable as: dict key (single match), (key, *node path, '
                     'op/var) for wildcard matches, full path string for list requests',
                     'population outputs: C16', 'inputs: the wildcard one-column-per-node jobs of C08 are run here as well; all other input forms are decided in C08'])
    base = []
    base += families.fam_hierarchy()[1:2] + families.fam_hierarchy()[5:6]
    base += families.fam_mixed_nodes(seed, n=2)
    base += families.fam_vectorization(seed, n=6, max_per_type=3)[2:5]
    base += families.fam_twin_operators()          # twin operators whose names differ between the nodes of one group
    base += families.fam_edge_templates()[1:3]      # one edge template serving two vectorization groups
    # edges with gamma kernels (a ring of one kernel): the edge paths must keep their meaning under every declaration order
    base += [p for p in families.fam_gamma_fixed() if p[0] == 'F11x:identical-kernels' or p[0] == 'F11x:ring-decl-120']
    # a variable path inside an edge definition (second input of an edge operator): it keeps addressing its node when the
    # nodes are merged into vectorization groups, whatever the declaration order
    base += [p for p in families.fam_edge_inputs() if p[0].startswith('FEI:1:')][:2]
    progs = []
    for key, spec in base:
        n = len(spec.nodes)
        perms = [tuple(range(n)), tuple(reversed(range(n)))]
        if tier == 'thorough' and n <= 4:
            perms = list(itertools.permutations(range(n)))
        elif tier == 'thorough':
            import random
            rnd = random.Random(seed)
            perms += [tuple(rnd.sample(range(n), n)) for _ in range(6)]
        for pm in perms:
            progs.append((f"{key}:perm={''.join(map(str, pm))}", permuted(spec, pm)))
    jobs = []
    for key, spec in progs:
        for ri, req in enumerate(requests_for(spec)):
            for vec in (True, False):
                jobs.append(dict(key=f"{key}|req{ri}|vec={vec}", spec=spec, outputs=req, vectorize=vec))
    if tier == 'quick':
        jobs = jobs[::2]
    # update_var with the same paths, on circuits whose nodes share one NodeTemplate object: first every state variable
    # gets its own initial value (array form / single nodes), then ONE node or a wildcard is addressed
    from .c07 import base_spec
    for shared in (True, False):
        spec, fp = base_spec(shared, False)
        init = [('all/o1/x', [fp() for _ in range(3)]), ('b0/li/x', fp()), ('b1/li/x', fp())]
        for ui, upd in enumerate([('a1/o1/k', fp()), ('a0/o1/g', fp()), ('all/li/tau', fp()), ('b1/li/tau', fp())]):
            for vec in (True, False):
                jobs.append(dict(key=f"upd:shared={shared}|update_var:{upd[0]}|vec={vec}", spec=spec, vectorize=vec,
                                 outputs={'w': 'all/o1/x', 'v': 'all/li/x'}, update=init + [upd]))
    # edge paths inside one vectorized group, written down in target order, with the index-based edge code forced
    for key, spec in families.fam_projections(seed, n=4)[:4]:
        if ':perm' in key or ':reverse' in key or ':two_rings' in key:
            for ri, req in enumerate(requests_for(spec)[:2]):
                jobs.append(dict(key=f"{key}|index-branch|req{ri}|vec=True", spec=spec, outputs=req, vectorize=True,
                                 run_kw=dict(matrix_sparseness=1.0)))
    # three levels, the mid-level and the leaf circuit each ONE object under two keys
    spec, fp = base_spec(True, 2, same_sub=True)
    init = [('all/all/all/o1/x', [fp() for _ in range(8)]), ('all/all/all/li/x', [fp() for _ in range(4)])]
    for upd in [('m0/c0/a0/o1/k', fp()), ('m1/c1/b0/li/tau', fp()), ('m1/all/a1/o1/g', fp())]:
        for vec in (True, False):
            jobs.append(dict(key=f"upd3:three-levels-shared|update_var:{upd[0]}|vec={vec}", spec=spec, vectorize=vec,
                             same_sub=True, outputs={'w': 'all/all/all/o1/x', 'v': 'm1/c0/all/li/x'}, update=init + [upd]))
    if only:
        jobs = [j for j in jobs if only in j['key']]
    for job, outc in runner.run_jobs(job_fn, jobs, timeout=300):
        if not outc['ok']:
            rep.harness_error(f"{job['key']}: {outc['error']} {outc.get('tb', '')[-400:]}")
            continue
        r = outc['result']
        rep.add_stats(outc['stats'])
        rep.add_tally(r['tally'])
        rep.program(job['key'], sample=dict(key=job['key'], outputs=job['outputs'], columns=r['columns'])
                    if rep.programs % 17 == 0 else None, nontrivial='compile_error' not in r)
        if 'compile_error' in r:
            rec = dict(property='C06', key=job['key'], kind='run-raises', outputs=job['outputs'],
                       what=f"{job['key']}: run(outputs={job['outputs']}) raises {r['compile_error'][:200]}")
            rep.violation(rec, findings.attribute('C06', job, rec))
            continue
        for v in r['violations']:
            rec = dict(property='C06', key=job['key'], outputs=job['outputs'], spec=job['spec'].describe(),
                       spec_blob=tvspec.spec_blob(job['spec']), emitted_source=r['src'], **v)
            rec['what'] = f"{job['key']}: {v.get('what')}"
            rep.violation(rec, v.get('finding') or findings.attribute('C06', job, rec))
        for i in r['inconclusive']:
            rep.inconcl(dict(key=job['key'], **{k: str(x)[:200] for k, x in i.items()}))
    # the same paths as INPUT targets: wildcard with one column per addressed node (harness of C08; column i must drive the
    # i-th node the path addresses, in the order the same path yields as an output)
    from . import c08
    ij = [j for j in c08.jobs_for(tier) if j['cols'] > 0 and j['target'].startswith('all/')]
    if only:
        ij = [j for j in ij if only in j['key']]
    for job, outc in runner.run_jobs(c08.input_job, ij, timeout=600):
        if not outc['ok']:
            rep.harness_error(f"{job['key']}: {outc['error']} {outc.get('tb', '')[-400:]}")
            continue
        r = outc['result']
        rep.add_stats(outc['stats'])
        rep.add_tally(r['tally'])
        rep.program(job['key'], nontrivial=bool(r['obligations']))
        if 'compile_error' in r:
            rec = dict(property='C06', key=job['key'], kind='compile-raises',
                       what=f"{job['key']}: well-formed input request is rejected: {r['compile_error'][:300]}")
            rep.violation(rec, findings.attribute('C06', job, rec))
            continue
        for v in r['violations']:
            rec = dict(property='C06', key=job['key'], emitted_source=r['src'], **v)
            rec['what'] = f"{job['key']}: {v.get('what')}"
            rep.violation(rec, v.get('finding') or findings.attribute('C06', job, rec))
        for i in r['inconclusive']:
            rep.inconcl(dict(key=job['key'], **{k: str(x)[:300] for k, x in i.items()}))
    return rep.finish(rule='program = (circuit, node declaration order, output request, vectorize); obligations: TV of the '
                           'function captured inside run() (identity of every state position) + every DataFrame column '
                           'carries the state index of the variable its label names, and the columns are exactly the '
                           'requested variables')
