"""C09 -- discrete edge delays shift the source by round(delay/dt) steps (one inductive step of the ring buffers)."""
from fractions import Fraction as F

from .. import families, tv, tvspec, decide, runner, findings, tvdelay
from ..spec import build_python
from ..report import Report
from .c01 import FUNCS

DT = F(1, 4)


def job_fn(job):
    spec = job['spec']
    ct = build_python(spec)
    tally = decide.Tally()
    try:
        c = tv.compile_template(ct, vectorize=job['vectorize'], step_size=float(DT), solver='euler')
    except tv.CompileError as e:
        return dict(status='compile-raises', error=str(e))
    plugin = tvdelay.RingBufferPlugin(DT)
    res = tvspec.validate(spec, c, tally, vectorized=job['vectorize'], plugin=plugin, t_sym=3)
    return dict(status='ok', res=res, tally=tally.as_dict(), src=c.src, keys=list(c.keys),
                smap={k: str(v) for k, v in c.smap.items()}, n_buffers=len(plugin.buffers))


def run(tier='quick', seed=0, only=None, verbose=False):
    rep = Report('C09', tier, seed, 'translation_validation', functions_encoded=FUNCS + [
        'pyrates.ir.circuit.CircuitIR._add_edge_buffer / _collect_delays_from_edges (concrete)',
        'emitted ring-buffer code: buf[:] = roll(buf, 1[, 1]); buf[...,0] = x; read slot D (symx, one inductive step)'],
        bounds=dict(dt='1/4', delays='round(d/dt) in 2..4 (quick) / 2..6 (thorough), incl. non-multiples of dt',
                    nodes='<=5', edges='<=5', vectorize='True and False'),
        stubs=['numpy library model'],
        assumptions=['reals for floats', 'representation invariant of the ring buffer: old slot j holds the source value '
                     'j+1 steps ago (proved to be re-established by every call)', 'delays rounding to < 2 steps are '
                     'excluded by the property', 'Connectivity ring buffers: see C16'])
    progs = families.fam_discrete_delays_fixed() + families.fam_discrete_delays(seed, n=14 if tier == 'quick' else 150,
                                                                               max_steps=4 if tier == 'quick' else 6)
    if only:
        progs = [p for p in progs if only in p[0]]
    jobs = [dict(key=f"{k}|vec={v}", spec=s, vectorize=v) for k, s in progs for v in (True, False)]
    from .. import tvjobs
    tvjobs.run_tv_jobs(rep, jobs, verbose=verbose, fn=job_fn)
    return rep.finish(rule='program = circuit with a mixture of delayed/undelayed edges x vectorize; the emitted function is '
                           'run once on symbolic state AND symbolic ring-buffer contents; obligations: buffer invariant '
                           're-established (slot 0 = current source value, slot j = old slot j-1), and per state variable '
                           'emitted derivative == reference with each delayed edge delivering its source round(d/dt) '
                           'steps ago, undelayed edges the current value')
