"""C09 -- discrete edge delays shift the source by round(delay/dt) steps (one inductive step of the ring buffers)."""
from fractions import Fraction as F

import numpy as np

from .. import families, tv, tvspec, decide, runner, findings, tvdelay
from ..spec import build_python
from ..report import Report
from .c01 import FUNCS

DT = F(1, 4)


def job_fn(job):
    spec = job['spec']
    ckw = {}
    if job.get('delay_via_edge_values') is not None:
        # the template is built WITHOUT the delay of one edge; that delay is passed for this translation (edge_values)
        import copy
        from ..spec import EdgeSpec
        i = job['delay_via_edge_values']
        e = spec.edges[i]
        bare = copy.deepcopy(spec)
        bare.edges[i] = EdgeSpec(e.src, e.tgt, e.weight, None, e.spread, e.template, e.edge_overrides)
        ct = build_python(bare)
        ckw['edge_values'] = {(e.src, e.tgt): {'delay': float(e.delay)}}
    else:
        ct = build_python(spec)
    tally = decide.Tally()
    try:
        c = tv.compile_template(ct, vectorize=job['vectorize'], step_size=float(DT), solver='euler', **ckw)
    except tv.CompileError as e:
        return dict(status='compile-raises', error=str(e))
    plugin = tvdelay.RingBufferPlugin(DT)
    res = tvspec.validate(spec, c, tally, vectorized=job['vectorize'], plugin=plugin, t_sym=3)
    return dict(status='ok', res=res, tally=tally.as_dict(), src=c.src, keys=list(c.keys),
                smap={k: str(v) for k, v in c.smap.items()}, n_buffers=len(plugin.buffers))


# ---------------------------------------------------------------------------------------------
# run level: the real fixed-step kernels driving the emitted (stateful) function
# ---------------------------------------------------------------------------------------------
def run_level_job(job):
    """The ring-buffer invariant assumes ONE evaluation of the vector field per integration step.  Here the real
    Euler/Heun kernel integrates the emitted text (executed on symbols) for K steps with dts = dt; afterwards every
    ring buffer must hold its source variable's recorded trajectory shifted by one slot per STEP:
    buffer[slot j] == row (K-1-j) of the source (zero before the start)."""
    import pyrates.backend.base.base_backend as bb
    import z3
    from .. import symx, libmodels
    from ..symx import Sym, SArr
    from .c03 import _kernel
    spec, heun, K = job['spec'], job['heun'], job['steps']
    tally = decide.Tally()
    out = dict(violations=[], inconclusive=[], obligations=0)
    try:
        if job.get('pop'):
            from . import c16
            ct0 = c16.build_population(c16.make_model(*job['pop']))
        else:
            ct0 = build_python(spec)
        c = tv.compile_template(ct0, vectorize=job['vectorize'], step_size=float(DT), solver='euler')
    except tv.CompileError as e:
        return dict(status='compile-raises', error=str(e))
    bufs = tvdelay.find_state_carrying_args(c)
    if not bufs:
        out['inconclusive'].append(dict(what='no ring buffer in the emitted function'))
        out['tally'] = tally.as_dict()
        return dict(status='ok', res=dict(violations=[], inconclusive=out['inconclusive'], obligations=[], diagnostics=[]),
                    tally=tally.as_dict(), src=c.src, keys=list(c.keys), smap={})
    syms = tvspec.Symbols(spec)
    symx.Ctx.cur = symx.Ctx()
    binding = tv.Binding(dict(syms.table))
    ny = int(np.asarray(c.args[1]).size)
    y = symx.symarray('y0', ny)
    sargs = tv.bind_args(c, binding, y, 0)
    f, _ = tv.load_python(c, binding)
    if job.get('decorated'):
        # the function reaches the kernel the way run(decorator=...) hands it over: wrapped by PyRates' own helper
        def deco(fn):
            def wrapped(*a):
                return fn(*a)
            return wrapped
        f = bb.BaseBackend._apply_decorator(f, decorator=deco)
    kern = _kernel('base', heun)
    pos, _ = tvspec._positions(c, syms)
    try:
        rec = np.asarray(kern(f, tuple(sargs[2:]), float(DT * K), float(DT), float(DT), y, 0), dtype=object)
    except Exception as e:   # noqa
        out['inconclusive'].append(dict(what=f"kernel on the emitted text raised {type(e).__name__}: {e}"))
        return dict(status='ok', res=dict(violations=[], inconclusive=out['inconclusive'], obligations=[], diagnostics=[]),
                    tally=tally.as_dict(), src=c.src, keys=list(c.keys), smap={})
    viol = []
    obligations = []

    def eq(a, b):
        # cheap refutation first: terms that differ at a random rational point differ (concrete witness); only
        # candidates that agree numerically go to the solver for the proof
        if decide.numeric_disagreement(a, b, None, n_extra=3) is not None:
            tally.obligations += 1
            tally.sat += 1
            return 'sat'
        return decide.prove_equal(a, b, tally=tally)[0]
    for p in bufs:
        B = np.asarray(sargs[p], dtype=object)
        B2 = B.reshape(-1, B.shape[-1]) if B.ndim > 1 else B.reshape(1, -1)
        for r in range(B2.shape[0]):
            # which state variable does this row follow?  slot 0 after the last call = the state at the last stored
            # step (the kernels evaluate the field at the state of step K-1 last)
            src_pos = None
            for jpos in range(ny):
                v = eq(B2[r, 0], rec[K - 1, jpos])
                if v == 'unsat':
                    src_pos = jpos
                    break
            if src_pos is None:
                viol.append(dict(kind='ring-buffer-run', solver='heun' if heun else 'euler',
                                 what=f"after {K} {'Heun' if heun else 'Euler'} steps slot 0 of {c.keys[p]} (row {r}) is "
                                      f"not the value any state variable had at the last step (it holds "
                                      f"{str(B2[r, 0])[:80]}): the buffer does not advance exactly once per integration "
                                      f"step"))
                continue
            for j in range(B2.shape[1]):
                k_src = K - 1 - j
                want = rec[k_src, src_pos] if k_src >= 0 else symx.val(0)
                v = eq(B2[r, j], want)
                obligations.append(dict(var=f"{c.keys[p]}[{r},{j}]", verdict=v))
                if v == 'sat':
                    tally.sat_confirmed += 1
                    viol.append(dict(kind='ring-buffer-run', solver='heun' if heun else 'euler',
                                     what=f"after {K} {'Heun' if heun else 'Euler'} steps slot {j} of {c.keys[p]} (row {r}) "
                                          f"is not the source's recorded value {j} steps back: the buffer does not "
                                          f"advance exactly once per integration step"))
                    break
    return dict(status='ok', res=dict(violations=viol, inconclusive=out['inconclusive'], obligations=obligations,
                                      diagnostics=[]),
                tally=tally.as_dict(), src=c.src, keys=list(c.keys), smap={k: str(v) for k, v in c.smap.items()})


def run(tier='quick', seed=0, only=None, verbose=False):
    rep = Report('C09', tier, seed, 'translation_validation', functions_encoded=FUNCS + [
        'pyrates.ir.circuit.CircuitIR._add_edge_buffer / _collect_delays_from_edges (concrete)',
        'emitted ring-buffer code: buf[:] = roll(buf, 1[, 1]); buf[...,0] = x; read slot D (symx, one inductive step)',
        'BaseBackend._solve_euler / _solve_heun driving the emitted function (symx, K = 4/6 steps)'],
        bounds=dict(dt='1/4', delays='round(d/dt) in 2..4 (quick) / 2..7 (thorough), incl. non-multiples of dt',
                    nodes='<=5', edges='<=5', vectorize='True and False'),
        stubs=['numpy library model'],
        assumptions=['reals for floats', 'representation invariant of the ring buffer: old slot j holds the source value '
                     'j+1 steps ago (proved to be re-established by every call)', 'delays rounding to < 2 steps are '
                     'excluded by the property', 'Connectivity ring buffers: 3 (quick) / 12 (thorough) population models per delay kind here, more in C16'])
    progs = families.fam_discrete_delays_fixed() + families.fam_discrete_delays(seed, n=14 if tier == 'quick' else 400,
                                                                               max_steps=4 if tier == 'quick' else 7)
    if only:
        progs = [p for p in progs if only in p[0]]
    jobs = [dict(key=f"{k}|vec={v}", spec=s, vectorize=v) for k, s in progs for v in (True, False)]
    # the delay of ONE edge given through edge_values at translation time (the other edges of its group stay as they are)
    for k, s in progs:
        if k in ('F9x:mixed-fanout', 'F9x:undelayed-other-source', 'F9x:self'):
            i_ = next(i for i, e in enumerate(s.edges) if e.delay is not None)
            jobs += [dict(key=f"{k}|delay-via-edge_values|vec={v}", spec=s, vectorize=v, delay_via_edge_values=i_)
                     for v in (True, False)]
    from .. import tvjobs
    tvjobs.run_tv_jobs(rep, jobs, verbose=verbose, fn=job_fn)
    # matrix (Connectivity) edges: delayed connections between populations (harness of C16, here the delay kinds only)
    from . import c16
    mj = []
    for kind in ('delay', 'delay2'):
        for i in range(3 if tier == 'quick' else 12):
            mj.append(dict(key=f"pop:{kind}:{seed}:{i}|population", kind=kind, seed=seed * 100 + i, build='population',
                           vectorize=True, spec=None))
    if only:
        mj = [j for j in mj if only in j['key']]
    for j in mj:
        j['spec'] = c16.explicit_spec(c16.make_model(j['kind'], j['seed']))
    tvjobs.run_tv_jobs(rep, mj, verbose=verbose, fn=c16.job_fn)
    # run level: kernel x emitted function (the buffers must advance once per STEP under every fixed-step kernel)
    fixed = dict(families.fam_discrete_delays_fixed())
    rj = []
    for name in ('F9x:two-delays-one-source', 'F9x:ring') if tier == 'quick' else ('F9x:two-delays-one-source', 'F9x:ring',
                                                                                    'F9x:self', 'F9x:mixed-fanout'):
        for heun in (False, True):
            for v in (True, False):
                rj.append(dict(key=f"run-level:{name}|{'heun' if heun else 'euler'}|vec={v}", spec=fixed[name], vectorize=v,
                               heun=heun, steps=4 if tier == 'quick' else 6, solver='heun' if heun else 'euler'))
    for v in (True, False):
        rj.append(dict(key=f"run-level:F9x:ring|heun|decorated|vec={v}", spec=fixed['F9x:ring'], vectorize=v, heun=True,
                       steps=4, solver='heun', decorated=True))
    if only:
        rj = [j for j in rj if only in j['key']]
    tvjobs.run_tv_jobs(rep, rj, verbose=verbose, fn=run_level_job)
    return rep.finish(rule='program = circuit with a mixture of delayed/undelayed edges x vectorize; the emitted function is '
                           'run once on symbolic state AND symbolic ring-buffer contents; obligations: buffer invariant '
                           're-established (slot 0 = current source value, slot j = old slot j-1), and per state variable '
                           'emitted derivative == reference with each delayed edge delivering its source round(d/dt) '
                           'steps ago, undelayed edges the current value; run level: BaseBackend._solve_euler/_solve_heun integrate the '
                           'emitted text for K steps on symbolic state, afterwards every ring buffer holds its source\'s '
                           'recorded rows shifted by one slot per step')
