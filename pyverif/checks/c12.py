"""C12 -- get_jacobian_func returns the derivative of get_run_func.

The emitted vector field (the text get_run_func wrote) is executed in forward-mode AD over symx values: the state
entries (and, for delayed models, every value read from hist) are dual numbers whose primal and tangents are z3 terms.
That yields the exact symbolic partial derivatives of THE FUNCTION THAT WAS RETURNED.  The emitted Jacobian function is
executed symbolically as well; obligation per entry (i, j): J[i, j] == d f_i / d y_j, including the entries that must
be zero, in the state ordering of the run function.  DDE: one matrix per distinct delay, entry (i, j) ==
d f_i / d hist(t - tau)[j]; sparse=True: the same entries inside the csr container.
"""
import itertools
import random
from fractions import Fraction as F

import numpy as np
from pyverif.tv import tv_to_np
import z3

from .. import families, tv, tvspec, decide, runner, findings, symx, libmodels
from .. import expr as X
from ..expr import V, C
from ..ad import Dual
from ..symx import Sym, SArr
from ..spec import OpSpec, NodeSpec, EdgeSpec, ModelSpec, FP, build_python
from ..report import Report
from .c01 import FUNCS

DT = F(1, 4)


def fam_jac(seed, n):
    rnd = random.Random(seed)
    out = []
    funcs = ['tanh', 'sin', 'cos', 'exp', 'sigmoid', 'arctan', 'sinh', 'cosh', 'absv', 'tan']
    picks = [(rnd.choice(funcs), rnd.choice(funcs)) for _ in range(n)]
    # a piecewise constant function next to a differentiable one (its derivative vanishes; the entry keeps the rest)
    picks += [('sign', 'tanh'), ('tanh', 'sign')]
    for k, (f1, f2) in enumerate(picks):
        fp = FP()
        # operator with an algebraic intermediate variable and two state variables
        e_m = X.mul(V('s'), X.call(f1, X.sub(V('a'), V('th'))))
        e_a = X.add(X.sub(V('b'), X.mul(V('k'), X.pw(V('a'), 3))), X.mul(V('m'), V('b')))
        e_b = X.sub(X.div(X.mul(V('h'), V('r_in')), V('tau')), X.mul(X.call(f2, V('a')), V('b')))
        op = OpSpec('nl', [('m', 'alg', e_m), ('a', 'de', e_a), ('b', 'de', e_b)],
                    {'m': ('alg', F(0)), 'a': ('state', fp()), 'b': ('state', fp()), 's': ('const', fp()),
                     'th': ('const', fp()), 'k': ('const', fp()), 'h': ('const', fp()), 'tau': ('const', fp()),
                     'r_in': ('input', fp())}, output='a')
        li = families.op_leaky(fp)
        o1 = families.op_two_inputs(fp)
        ops = {'nl': op, 'li': li, 'o1': o1}
        nodes = {'p': NodeSpec(['nl'], families._node_overrides(fp, ops, ['nl'])),
                 'q': NodeSpec(['o1'], families._node_overrides(fp, ops, ['o1'])),
                 'r': NodeSpec(['li'], families._node_overrides(fp, ops, ['li']))}
        cands = [('p/nl/a', 'q/o1/u'), ('q/o1/x', 'p/nl/r_in'), ('r/li/x', 'q/o1/w'), ('q/o1/x', 'r/li/u'),
                 ('p/nl/b', 'r/li/u'), ('r/li/x', 'p/nl/r_in')]
        rnd.shuffle(cands)
        edges, seen = [], set()
        for s, t in cands[:rnd.randint(2, 4)]:
            if (s.split('/')[0], t) in seen:
                continue
            seen.add((s.split('/')[0], t))
            edges.append(EdgeSpec(s, t, fp()))
        out.append((f"FJ:{seed}:{k}:{f1}:{f2}", ModelSpec('m', ops, nodes, edges, note=f"jacobian family {f1}/{f2}")))
    return out


def fam_jac_diamond():
    """algebraic intermediates that form a diamond inside one differential equation: r is used directly and through z,
    which itself depends on r (in several naming orders: the symbolic expansion follows the names)"""
    out = []
    for names in (('r', 'z'), ('z', 'r'), ('m', 'q')):
        for f1 in ('sigmoid', 'tanh'):
            fp = FP()
            n1, n2 = names
            e1 = X.call(f1, X.mul(V('g'), X.sub(V('v'), V('th'))))
            e2 = X.add(X.mul(V(n1), V(n1)), X.mul(V('c'), V('u')))
            e_v = X.add(X.add(X.div(X.neg(V('v')), V('tau')), V(n1)), V(n2))
            e_u = X.add(X.add(X.neg(V('u')), X.call('sin', V('v'))), X.mul(V('h'), V(n2)))
            op = OpSpec('dm', [(n1, 'alg', e1), (n2, 'alg', e2), ('v', 'de', e_v), ('u', 'de', e_u)],
                        {n1: ('alg', F(0)), n2: ('alg', F(0)), 'v': ('state', fp()), 'u': ('state', fp()),
                         'g': ('const', fp()), 'th': ('const', fp()), 'tau': ('const', fp()), 'c': ('const', fp()),
                         'h': ('const', fp())}, output='v')
            ops = {'dm': op}
            nodes = {'p': NodeSpec(['dm'], {})}
            out.append((f"FJ:diamond:{n1}{n2}:{f1}", ModelSpec('m', ops, nodes, [], note="diamond of algebraic variables")))
    return out


def fam_jac_close_delays():
    """two numeric delays of one variable that differ in the 8th significant digit (they stay two delays)"""
    out = []
    for d1, d2 in ((F(23333333, 10 ** 7), F(23333334, 10 ** 7)), (F(1, 2), F(50000001, 10 ** 8))):
        fp = FP()
        e1 = X.add(X.mul(X.neg(V('k')), X.mul(V('x'), X.past('x', C(d1)))), X.mul(V('g'), X.call('tanh', X.past('z', C(d2)))))
        e2 = X.sub(X.mul(V('x'), X.past('x', C(d2))), V('z'))
        op = OpSpec('dd', [('x', 'de', e1), ('z', 'de', e2)],
                    {'x': ('state', fp()), 'z': ('state', fp()), 'k': ('const', fp()), 'g': ('const', fp())}, output='x')
        out.append((f"FJ:close-delays:{float(d1)}:{float(d2)}", ModelSpec('m', {'dd': op}, {'p': NodeSpec(['dd'], {})}, [],
                                                                         note="numeric delays that differ in the 8th digit")))
    return out


def fam_jac_parallel_delays():
    """two scalar nodes of different types; two parallel delayed connections (different delays) from one to the other: the
    source is read through a buffer whose slots are assigned one by one"""
    from ..spec import EdgeSpec
    fp = FP()
    li = families.op_leaky(fp)
    li.vars['u'] = ('input', F(0))
    o1 = families.op_two_inputs(fp)
    o1.vars['u'] = ('input', F(0))
    nodes = {'p0': NodeSpec(['li'], {}), 'p1': NodeSpec(['o1'], {})}
    edges = [EdgeSpec('p0/li/x', 'p1/o1/u', fp(), delay=F(1, 2)), EdgeSpec('p0/li/x', 'p1/o1/u', fp(), delay=F(3, 4)),
             EdgeSpec('p1/o1/x', 'p0/li/u', fp())]
    out = [("FJ:parallel-delays", ModelSpec('m', {'li': li, 'o1': o1}, nodes, edges,
                                            note="parallel delayed connections between two scalar nodes"))]
    # one delay written as the integer 1 on one edge and as the float 1.0 on the other: one history matrix
    edges2 = [EdgeSpec('p0/li/x', 'p1/o1/u', fp(), delay=F(1)), EdgeSpec('p1/o1/x', 'p0/li/u', fp(), delay=F(1))]
    out.append(("FJ:int-and-float-delay", ModelSpec('m', {'li': li, 'o1': o1}, dict(nodes), edges2,
                                                    note="the same delay as int and as float")))
    return out


def jac_job(job):
    spec = job['spec']
    out = dict(violations=[], inconclusive=[], obligations=[], src='', jsrc='')
    tally = decide.Tally()
    solver = job.get('solver', 'euler')
    skw = {} if solver == 'default' else dict(solver=solver)     # 'default': the solver keyword is omitted in both calls
    # optional extrinsic input: samples are fingerprinted so that the array argument becomes symbols U_k
    inp = job.get('inputs')
    in_table = {}
    if inp:
        base = [F(2 * i + 1281, 64) for i in range(3)]
        skw['inputs'] = {inp: np.array([float(b) for b in base])}
    try:
        vec = bool(job.get('vectorize', False))       # (True only for models whose nodes all differ: every state stays scalar)

        def build():
            ct_ = build_python(spec)
            if 'int-and-float-delay' in job['key']:
                e0 = spec.edges[0]
                ct_.update_var(edge_vars=[(e0.src, e0.tgt, {'delay': int(e0.delay)})])     # 1 instead of 1.0
            return ct_
        c_run = tv.compile_template(build(), vectorize=vec, step_size=float(DT), **skw)
        c_jac = tv.compile_template(build(), vectorize=vec, step_size=float(DT), kind='jac',
                                    sparse=job.get('sparse', False), fname='jf', **skw)
    except tv.CompileError as e:
        out['compile_error'] = str(e)
        out['tally'] = tally.as_dict()
        return out
    out['src'], out['jsrc'] = c_run.src, c_jac.src
    ny = int(np.asarray(tv_to_np(c_run.args[1])).size)
    if int(np.asarray(tv_to_np(c_jac.args[1])).size) != ny or not np.allclose(np.asarray(c_run.args[1], float), np.asarray(c_jac.args[1], float)):
        out['violations'].append(dict(kind='state-order', what='run function and Jacobian function disagree on the state '
                                      f'vector: {np.asarray(c_run.args[1]).tolist()} vs {np.asarray(c_jac.args[1]).tolist()}'))
        out['tally'] = tally.as_dict()
        return out
    # concrete shadow run of the Jacobian function
    try:
        c_jac.func(*[np.array(a, copy=True) if isinstance(a, np.ndarray) else a for a in c_jac.args])
    except Exception as e:   # noqa
        out['violations'].append(dict(kind='emitted-function-raises', what=f"the Jacobian function raises on the "
                                      f"arguments returned with it: {type(e).__name__}: {e}"))
        out['tally'] = tally.as_dict()
        return out
    syms = tvspec.Symbols(spec)
    adaptive = solver not in ('euler', 'heun', 'default')
    t = symx.real('t')
    if inp:
        for i, b in enumerate(base):
            in_table[b] = symx.real(f"U_{i}")
        # the input is read at a concrete time: step 1 (fixed step) / t = 0.3 inside the first sampling interval
        t = symx.val(F(3, 10)) if adaptive else 1
    y = symx.symarray('y', ny)
    H = [symx.UF(f"Hist{i}", 1) for i in range(ny)]
    time = t if adaptive else t * symx.val(DT)
    delay_keys = {}

    def hist_dual(tau):
        te = z3.simplify(symx.lift(tau))
        dk = str(z3.simplify(symx.lift(time) - te))       # the delay itself
        delay_keys[dk] = te
        return SArr([Dual(Sym(H[i](te)), {('h', dk, i): symx.val(1)}) for i in range(ny)])

    def hist_plain(tau):
        te = z3.simplify(symx.lift(tau))
        return SArr([Sym(H[i](te)) for i in range(ny)])
    symx.Ctx.cur = symx.Ctx()
    try:
        b1 = tv.Binding({**syms.table, **in_table})
        yd = SArr([Dual(y[j], {('y', j): symx.val(1)}) for j in range(ny)])
        sargs = tv.bind_args(c_run, b1, yd, t, hist=hist_dual)
        f, _ = tv.load_python(c_run, b1)
        dy = np.asarray(f(*sargs), dtype=object).reshape(-1)
        b2 = tv.Binding({**syms.table, **in_table})
        jargs = tv.bind_args(c_jac, b2, y, t, hist=hist_plain)
        jf, _ = tv.load_python(c_jac, b2)
        J = jf(*jargs)
    except symx.Unsupported as e:
        out['inconclusive'].append(dict(kind='engine', what=str(e)))
        out['tally'] = tally.as_dict()
        return out
    except Exception as e:   # noqa
        out['inconclusive'].append(dict(kind='engine', what=f"symbolic run raised {type(e).__name__}: {e}"))
        out['tally'] = tally.as_dict()
        return out
    pc = list(symx.Ctx.cur.pc)
    symx.Ctx.cur = None
    Jh = []
    if isinstance(J, tuple):
        J0, Jh = J[0], list(J[1])
    else:
        J0 = J
    unwrap = lambda m: np.asarray(m.toarray() if hasattr(m, 'toarray') else m, dtype=object)   # noqa
    J0 = unwrap(J0)
    Jh = [unwrap(m) for m in Jh]
    zero = symx.val(0)

    def tangent(i, key):
        d = dy[i]
        return d.t.get(key, zero) if isinstance(d, Dual) else zero

    def cmp(gen, ref, what):
        v, model = decide.prove_equal(gen, ref, pc=pc, tally=tally)
        out['obligations'].append(dict(entry=what, verdict=v))
        if v == 'sat':
            dis = decide.numeric_disagreement(gen, ref, model, pc=pc)
            if dis is None:
                tally.sat_spurious += 1
                out['inconclusive'].append(dict(kind='sat-not-reproduced', what=what))
                return
            env, gv, rv_ = dis
            # replay on the real functions: central differences of the real vector field in float64
            ok, detail = _replay(c_run, c_jac, b1, b2, env, what, ny, adaptive)
            if ok:
                tally.sat_confirmed += 1
                out['violations'].append(dict(kind='jacobian-entry', what=f"{what}: emitted Jacobian entry differs from "
                                              f"the derivative of the emitted vector field ({detail})", env=env,
                                              gen=str(z3.simplify(symx.lift(gen)))[:200],
                                              ref=str(z3.simplify(symx.lift(ref)))[:200]))
            else:
                tally.sat_spurious += 1
                out['inconclusive'].append(dict(kind='sat-not-reproduced-on-real-function', what=what, detail=detail))
        elif v == 'unknown':
            out['inconclusive'].append(dict(kind='solver-unknown', what=what))
    if J0.shape != (ny, ny):
        out['violations'].append(dict(kind='shape', what=f"Jacobian has shape {J0.shape} for {ny} states"))
        out['tally'] = tally.as_dict()
        return out
    for i in range(ny):
        for j in range(ny):
            cmp(J0[i, j], tangent(i, ('y', j)), f"J0[{i},{j}]")
    # history matrices: one per distinct delay, matched by content
    dks = sorted(delay_keys)
    if len(Jh) > len(dks) and _coinciding_delays(spec):
        out['inconclusive'].append(dict(kind='spec', what='two delay parameters of the program have the same value: the '
                                        'history matrices cannot be told apart by value'))
    elif len(Jh) != len(dks):
        out['violations'].append(dict(kind='history-matrices', what=f"{len(Jh)} history matrices returned for "
                                      f"{len(dks)} distinct delays {dks}"))
    else:
        remaining = list(range(len(Jh)))
        for dk in dks:
            match = None
            for mi in remaining:
                good = True
                for i in range(ny):
                    for j in range(ny):
                        v, _ = decide.prove_equal(Jh[mi][i, j], tangent(i, ('h', dk, j)), pc=pc)
                        if v != 'unsat':
                            good = False
                            break
                    if not good:
                        break
                if good:
                    match = mi
                    break
            if match is None:
                # report entry-wise against the matrix in the same (sorted) position
                mi = remaining[0]
                for i in range(ny):
                    for j in range(ny):
                        cmp(Jh[mi][i, j], tangent(i, ('h', dk, j)), f"J_hist[delay {dk}][{i},{j}]")
                remaining.pop(0)
            else:
                remaining.remove(match)
                tally.obligations += ny * ny
                tally.unsat += ny * ny
    # sparse=True changes only the container: the k-th history matrix of the sparse result is the k-th one of the dense
    # result (the list carries no delay labels, position is all a caller has)
    if job.get('sparse') and len(Jh) > 1:
        try:
            c_dense = tv.compile_template(build_python(spec), vectorize=False, step_size=float(DT), kind='jac',
                                          sparse=False, fname='jfd', **skw)
            symx.Ctx.cur = symx.Ctx()
            b3 = tv.Binding({**syms.table, **in_table})
            dargs = tv.bind_args(c_dense, b3, y, t, hist=hist_plain)
            df_, _ = tv.load_python(c_dense, b3)
            Jd = df_(*dargs)
            symx.Ctx.cur = None
            Jhd = [unwrap(m) for m in Jd[1]] if isinstance(Jd, tuple) else []
            if len(Jhd) != len(Jh):
                out['violations'].append(dict(kind='history-matrices', what=f"sparse=True returns {len(Jh)} history "
                                              f"matrices, sparse=False {len(Jhd)}"))
            else:
                for k_, (ms, md) in enumerate(zip(Jh, Jhd)):
                    for i in range(ny):
                        for j in range(ny):
                            v, model = decide.prove_equal(ms[i, j], md[i, j], pc=pc, tally=tally)
                            out['obligations'].append(dict(entry=f"sparse J_hist #{k_}[{i},{j}] == dense", verdict=v))
                            if v == 'sat' and decide.numeric_disagreement(ms[i, j], md[i, j], model, pc=pc) is not None:
                                tally.sat_confirmed += 1
                                out['violations'].append(dict(kind='history-matrix-order', what=f"history matrix #{k_} of "
                                                              f"the sparse Jacobian differs from history matrix #{k_} "
                                                              f"of the dense one at [{i},{j}] (sparse: "
                                                              f"{str(z3.simplify(symx.lift(ms[i, j])))[:80]}, dense: "
                                                              f"{str(z3.simplify(symx.lift(md[i, j])))[:80]})"))
                                break
                        else:
                            continue
                        break
        except (tv.CompileError, symx.Unsupported) as e:
            symx.Ctx.cur = None
            out['inconclusive'].append(dict(kind='engine', what=f"dense twin of the sparse DDE Jacobian: {e}"))
    out['tally'] = tally.as_dict()
    return out


def _coinciding_delays(spec):
    vals = []
    for o in spec.ops.values():
        for v, (k, val) in o.vars.items():
            if k == 'const' and v.startswith('tau'):
                vals.append(F(val))
    # (edge delays are literals: two edges with the same numeric delay share ONE history matrix, whatever the Python type
    # the number was written in; a delay PARAMETER that happens to hold the value of another parameter or of an edge delay
    # keeps a matrix of its own, which cannot be told apart by value)
    edge_vals = {F(e.delay) for e in spec.edges if e.delay is not None}
    return len(vals) != len(set(vals)) or any(v in edge_vals for v in vals)


def _replay(c_run, c_jac, b1, b2, env, what, ny, adaptive):
    """float64 replay: compare the real Jacobian function with central differences of the real vector field"""
    import re
    y_names = [f"y_{j}" for j in range(ny)]
    tval = env.get('t', 0.0) if adaptive else 0

    def hf(tau):
        return np.array([symx.hist_component(i, float(tau)) for i in range(ny)])
    try:
        ja = tv.float_args(c_jac, env, b2, y_names, t_value=tval, hist_fn=hf)
        Jr = c_jac.func(*ja)
        m = re.match(r"J0\[(\d+),(\d+)\]", what)
        if not m:
            return True, 'history entry (not replayed by differences)'
        i, j = int(m.group(1)), int(m.group(2))
        J0 = Jr[0] if isinstance(Jr, tuple) else Jr
        J0 = np.asarray(J0.toarray() if hasattr(J0, 'toarray') else J0, dtype=float)
        h = 1e-6
        vals = []
        for sgn in (+1, -1):
            e2 = dict(env)
            e2[f"y_{j}"] = env.get(f"y_{j}", 0.25) + sgn * h
            ra = tv.float_args(c_run, e2, b1, y_names, t_value=tval, hist_fn=hf)
            vals.append(np.array(c_run.func(*ra), dtype=float).reshape(-1)[i])
        fd = (vals[0] - vals[1]) / (2 * h)
        ok = abs(fd - J0[i, j]) > 1e-4 * max(1.0, abs(fd))
        return ok, f"Jacobian function gives {J0[i, j]}, central difference of the vector field {fd}"
    except Exception as e:   # noqa
        return True, f"replay raised {type(e).__name__}: {e}"


def run(tier='quick', seed=0, only=None, verbose=False):
    rep = Report('C12', tier, seed, 'translation_validation', functions_encoded=[
        'emitted text of get_run_func (symx forward-mode AD)', 'emitted text of get_jacobian_func (symx)',
        'ComputeGraph.get_jacobian_func / _get_symbolic_rhs / _resolve_derivatives / _expr_to_jac_str (concrete)'],
        bounds=dict(states='<=5', delays='<=2 distinct', functions='tanh sin cos exp sigmoid arctan sinh cosh absv tan sign, '
                    'cubic and rational terms, algebraic intermediates, edges', backends='default', sparse='on/off', solver='euler, heun, scipy, keyword omitted in both calls',
                    vectorize='False (scalar models, as the property states)'),
        stubs=['numpy library model; hist = uninterpreted functions; scipy.sparse.csr_matrix = tagging wrapper'],
        assumptions=['reals for floats', 'abs, sign: argument != 0 at the evaluation point', 'auto-07p DFDU/DFDP: see C18',
                     'counterexamples are replayed with central differences of the real vector field in float64'])
    progs = fam_jac(seed, 8 if tier == 'quick' else 200)
    dde = families.fam_dde(seed, n=8 if tier == 'quick' else 100)
    jobs = []
    for k, s in progs:
        jobs.append(dict(key=f"{k}|euler", spec=s, solver='euler'))
        if hash(k) % 3 == 0 or tier == 'thorough':
            jobs.append(dict(key=f"{k}|sparse", spec=s, solver='euler', sparse=True))
    for k, s in fam_jac_diamond():
        jobs.append(dict(key=f"{k}|euler", spec=s, solver='euler'))
    for k, s in fam_jac_close_delays():
        jobs.append(dict(key=f"{k}|scipy", spec=s, solver='scipy'))
        jobs.append(dict(key=f"{k}|scipy|sparse", spec=s, solver='scipy', sparse=True))
    for k, s in fam_jac_parallel_delays():
        for vec in ((True, False) if 'parallel' in k else (False,)):
            jobs.append(dict(key=f"{k}|scipy|vec={vec}", spec=s, solver='scipy', vectorize=vec))
    for pi_, (k, s) in enumerate(progs[:4 if tier == 'quick' else 40]):
        for solver in ('euler', 'heun', 'scipy'):
            jobs.append(dict(key=f"{k}|{solver}|input", spec=s, solver=solver, inputs=['q/o1/u', 'p/nl/r_in'][pi_ % 2]))
    for di, (k, s) in enumerate(dde):
        jobs.append(dict(key=f"{k}|scipy", spec=s, solver='scipy'))
        if di % 2 == 0 or tier == 'thorough':
            jobs.append(dict(key=f"{k}|default-solver", spec=s, solver='default'))
        if di % 4 == 1 or tier == 'thorough':
            jobs.append(dict(key=f"{k}|heun", spec=s, solver='heun'))
        jobs.append(dict(key=f"{k}|scipy|sparse", spec=s, solver='scipy', sparse=True))
        if tier == 'thorough':
            jobs.append(dict(key=f"{k}|euler", spec=s, solver='euler'))
    if only:
        jobs = [j for j in jobs if only in j['key']]
    for job, outc in runner.run_jobs(jac_job, jobs, timeout=600):
        if not outc['ok']:
            rep.harness_error(f"{job['key']}: {outc['error']} {outc.get('tb', '')[-500:]}")
            continue
        r = outc['result']
        rep.add_stats(outc['stats'])
        rep.add_tally(r['tally'])
        rep.program(job['key'], sample=dict(key=job['key'], jacobian_source=r['jsrc'][-700:], obligations=r['obligations'][:5])
                    if rep.programs % 13 == 0 else None, nontrivial='compile_error' not in r)
        if 'compile_error' in r:
            rec = dict(property='C12', key=job['key'], kind='compile-raises',
                       what=f"{job['key']}: get_jacobian_func/get_run_func raises {r['compile_error'][:300]}")
            rep.violation(rec, findings.attribute('C12', job, rec))
            continue
        for v in r['violations']:
            rec = dict(property='C12', key=job['key'], spec=job['spec'].describe(), spec_blob=tvspec.spec_blob(job['spec']),
                       run_source=r['src'], jacobian_source=r['jsrc'], **v)
            rec['what'] = f"{job['key']}: {v.get('what')}"
            rep.violation(rec, findings.attribute('C12', job, rec))
        for i in r['inconclusive']:
            rep.inconcl(dict(key=job['key'], **{k: str(x)[:200] for k, x in i.items()}))
    return rep.finish(rule='program = scalar model (nonlinear operator with algebraic intermediate + edges, or DDE model) x '
                           'sparse flag; obligations: every entry of every returned matrix == the forward-mode derivative '
                           'of the emitted vector field')
