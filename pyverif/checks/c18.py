"""C18 -- the auto-07p export addresses every parameter and state consistently.

The model is compiled with backend='fortran', auto=True (f2py replaced by the gfortran/ctypes stand-in); the written
.f90 and c.* files are read back.  With the f90smt interpreter:
 (i)   STPNT is executed: args(slot) and y(i) receive concrete values; value fingerprints identify which model parameter
       / state variable sits in which slot;
 (ii)  FUNC is executed THROUGH its forwarding call of the vector-field routine with args(slot) bound to the symbol of
       the parameter STPNT put there: z3 proves dy == reference semantics - one equality ties STPNT, the forwarding
       call and the subroutine signature together;
 (iii) DFDU / DFDP: forward-mode AD of the emitted vector-field routine w.r.t. y and args(slot) vs the emitted blocks
       (column index of DFDP = slot);
 (iv)  c.* files: parnames slot -> name consistent with the routine's dummy at that slot, unames, NDIM, NPAR = max slot,
       slots strictly increasing in declaration order, pairwise distinct, none in 10..14;
 (v)   CrossHair: _auto_param_indices over symbolic tuple lengths; the Fortran line wrapping re-joins to the original.
"""
import ast
import glob
import os
import random
import re
import shutil
import warnings
from fractions import Fraction as F

import numpy as np
import z3

from .. import families, tv, tvspec, decide, runner, findings, symx, f90smt, f2pystub, refsem, ch
from .. import expr as X
from ..expr import V, C
from ..ad import Dual
from ..symx import Sym, SArr
from ..spec import OpSpec, NodeSpec, EdgeSpec, ModelSpec, FP, build_python
from ..report import Report


def fam_auto(seed, n):
    """scalar models with 2..22 parameters (crossing slots 10/15), declaration order != order of first use"""
    rnd = random.Random(seed)
    out = []
    for k in range(n):
        fp = FP()
        npar = [2, 5, 9, 10, 11, 14, 18, 22][k % 8]
        names = [f"p{i}" for i in range(npar)]
        # x' = sum_i +-p_i * f_i(x, z) ; z' = ... with parameters used in an order different from their declaration
        use = names[:]
        rnd.shuffle(use)
        half = len(use) // 2 or 1
        terms_x = None
        for i, p in enumerate(use[:half]):
            t = X.mul(V(p), [V('x'), X.call('tanh', V('z')), X.mul(V('x'), V('z')), X.call('sigmoid', V('x')), V('u')][i % 5])
            terms_x = t if terms_x is None else X.add(terms_x, t)
        terms_z = X.neg(V('z'))
        for i, p in enumerate(use[half:]):
            t = X.mul(V(p), [V('x'), X.call('sin', V('z')), X.pw(V('x'), 2), C(1)][i % 4])
            terms_z = X.sub(terms_z, t) if i % 2 else X.add(terms_z, t)
        vars_ = {'x': ('state', fp()), 'z': ('state', fp()), 'u': ('input', fp())}
        if npar in (11, 18):
            # a parameter that only a boundary condition names, declared BEFORE the parameters of the vector field
            vars_['bq'] = ('const', fp())
        for p in names:       # declaration order p0, p1, ...
            vars_[p] = ('const', fp())
        if k % 4 == 2:
            vars_['p1'] = ('const', F(0))      # a parameter whose value is exactly 0 keeps its declared slot
        op = OpSpec('ao', [('x', 'de', terms_x), ('z', 'de', terms_z)], vars_, output='x')
        if k % 8 in (1, 6):
            # an operator with a SINGLE equation that uses all its parameters, in an order other than the declared one
            terms = None
            for i, p in enumerate(use):
                t = X.mul(V(p), [V('x'), X.call('tanh', V('u')), X.pw(V('x'), 2), X.call('sigmoid', V('x')), V('u'),
                                 X.call('absv', V('x'))][i % 6])
                terms = t if terms is None else (X.sub(terms, t) if i % 3 == 2 else X.add(terms, t))
            vars_ = {k_: v_ for k_, v_ in vars_.items() if k_ != 'z'}
            op = OpSpec('ao', [('x', 'de', terms)], vars_, output='x')
        li = families.op_leaky(fp)
        ops = {'ao': op, 'li': li}
        nodes = {'n0': NodeSpec(['ao'], {}), 'n1': NodeSpec(['li'], {})}
        edges = [EdgeSpec('n0/ao/x', 'n1/li/u', fp()), EdgeSpec('n1/li/x', 'n0/ao/u', fp())]
        out.append((f"FA:{seed}:{k}:npar={npar}", ModelSpec('m', ops, nodes, edges, note=f"auto export, {npar} parameters")))
    # a rational exponent (x^(1/3) must not become an integer division in Fortran); the DFDU block of this program is
    # outside the AD engine (power 1/3) and is reported as inconclusive
    fp = FP()
    e = X.add(X.mul(X.neg(V('p0')), X.rpw(X.call('absv', V('x')), F(1, 3))), X.mul(V('p1'), V('u')))
    rp = OpSpec('ao', [('x', 'de', e)], {'x': ('state', fp()), 'u': ('input', fp()), 'p0': ('const', fp()),
                                         'p1': ('const', fp())}, output='x')
    ops = {'ao': rp, 'li': families.op_leaky(fp)}
    out.append((f"FA:{seed}:rational-power", ModelSpec(
        'm', ops, {'n0': NodeSpec(['ao'], {}), 'n1': NodeSpec(['li'], {})},
        [EdgeSpec('n0/ao/x', 'n1/li/u', fp()), EdgeSpec('n1/li/x', 'n0/ao/u', fp())], note='auto export, rational exponent')))
    # values that binary32 does not hold exactly (1/10, 1/3, 7/5, 1/1000): STPNT must hand them to auto-07p in full precision
    fp = FP()
    e = X.add(X.mul(X.neg(V('p0')), V('x')), X.add(X.mul(V('p1'), V('u')), V('p2')))
    nd = OpSpec('ao', [('x', 'de', e)], {'x': ('state', F(1, 10)), 'u': ('input', fp()), 'p0': ('const', F(1, 3)),
                                         'p1': ('const', F(7, 5)), 'p2': ('const', F(1, 1000))}, output='x')
    ops = {'ao': nd, 'li': families.op_leaky(fp)}
    out.append((f"FA:{seed}:non-dyadic-values", ModelSpec(
        'm', ops, {'n0': NodeSpec(['ao'], {}), 'n1': NodeSpec(['li'], {})},
        [EdgeSpec('n0/ao/x', 'n1/li/u', fp()), EdgeSpec('n1/li/x', 'n0/ao/u', fp())], note='auto export, non-dyadic values')))
    # more than nine state variables, nonlinear in the high-numbered ones (two-digit y(k) in DFDU/DFDP expressions)
    for k in range(max(1, n // 8)):
        fp = FP()
        e = X.add(X.add(X.mul(X.neg(V('k')), X.mul(V('x'), V('x'))), X.mul(V('g'), X.call('tanh', V('u')))),
                  X.mul(V('c'), V('w')))
        sq = OpSpec('sq', [('x', 'de', e)], {'x': ('state', fp()), 'u': ('input', fp()), 'w': ('input', fp()),
                                            'k': ('const', fp()), 'g': ('const', fp()), 'c': ('const', fp())}, output='x')
        ops = {'sq': sq, 'li': families.op_leaky(fp)}
        m = 10 + k
        nodes = {f"r{i}": NodeSpec(['sq'], {('sq', 'x'): fp(), ('sq', 'k'): fp()}) for i in range(m)}
        nodes['n1'] = NodeSpec(['li'], {})
        edges = [EdgeSpec(f"r{i}/sq/x", f"r{(i + 1) % m}/sq/u", fp()) for i in range(m)]
        edges += [EdgeSpec(f"r{m - 1}/sq/x", 'n1/li/u', fp()), EdgeSpec('n1/li/x', 'r0/sq/w', fp())]
        out.append((f"FA:{seed}:big{k}:states={m + 1}", ModelSpec('m', ops, nodes, edges,
                                                                   note=f"auto export, {m + 1} state variables")))
    return out


def parse_cfile(text):
    d = {}
    for line in text.splitlines():
        if '=' in line:
            k, v = line.split('=', 1)
            try:
                d[k.strip()] = ast.literal_eval(v.strip())
            except Exception:   # noqa
                d[k.strip()] = v.strip()
    return d


def auto_job(job):
    spec = job['spec']
    out = dict(violations=[], inconclusive=[], obligations=[], src='', cfile='')
    tally = decide.Tally()
    f2pystub.install()
    ct = build_python(spec)
    wd = tv.scratch_dir()
    old = os.getcwd()
    os.chdir(wd)
    try:
        with warnings.catch_warnings():
            warnings.simplefilter('ignore')
            if job.get('first') is not None:
                # another model is exported first, in the same process (same variable names, other order and values)
                try:
                    build_python(job['first']).get_run_func('vf', step_size=0.25, backend='fortran', vectorize=False,
                                                            verbose=False, float_precision='float64', solver='scipy',
                                                            auto=True, file_name='first_export')
                except Exception:   # noqa
                    pass
                for f_ in glob.glob('c.*') + glob.glob('first_export*'):
                    os.remove(f_)
            try:
                func, args, keys, smap = ct.get_run_func('vf', step_size=0.25, backend='fortran', vectorize=False,
                                                         verbose=False, float_precision='float64', solver='scipy',
                                                         auto=True, **job.get('kw', {}))
            except Exception as e:   # noqa
                out['compile_error'] = f"{type(e).__name__}: {str(e)[:400]}"
                out['tally'] = tally.as_dict()
                return out
        src = open('pyrates_run.f90').read()
        cfiles = {os.path.basename(p): open(p).read() for p in glob.glob('c.*')}
    finally:
        os.chdir(old)
        shutil.rmtree(wd, ignore_errors=True)
    out['src'] = src
    cf = parse_cfile(next(iter(cfiles.values())))
    out['cfile'] = next(iter(cfiles.values()))[:600]
    try:
        it = f90smt.load(src)
    except f90smt.F90Error as e:
        out['violations'].append(dict(kind='not-fortran', what=f"the exported source is not valid Fortran: {e}"))
        out['tally'] = tally.as_dict()
        return out
    syms = tvspec.Symbols(spec)
    parnames = {int(k): v for k, v in cf.get('parnames', {}).items()}
    unames = {int(k): v for k, v in cf.get('unames', {}).items()}
    ndim, npar = cf.get('NDIM'), cf.get('NPAR')
    ny = len(np.asarray(args[1]).reshape(-1))
    viol = out['violations']

    # (0) kinds of the STPNT literals: a default-real literal assigned to a double precision slot is rounded to binary32
    # first (invisible to the real-valued encoding below), so "STPNT holds the model's values" needs literals that
    # binary32 holds exactly, or double precision literals
    for lhs, lit_, stored, written in f90smt.literal_kind_mismatches(src, 'stpnt'):
        tally.obligations += 1
        tally.sat += 1
        tally.sat_confirmed += 1
        viol.append(dict(kind='stpnt-literal-kind',
                         what=f"STPNT assigns the default-real literal {lit_} to the double precision slot {lhs}: auto-07p starts "
                              f"from {stored!r}, the model's value is {written!r}"))

    # (vi) boundary conditions / integral constraints given in the DSL: every par_<name> of residual k must be read from
    # the slot that parnames assigns to <name> (textual, concrete)
    import re as _re
    slot_of = {v.split('/')[-1]: k for k, v in parnames.items()}
    flat = _re.sub(r'&\s*\n\s*&?', '', src)
    for kind_, arr_, dsl in (('bcnd', 'fb', job.get('kw', {}).get('boundary_conditions') or []),
                             ('icnd', 'fi', job.get('kw', {}).get('integral_constraints') or [])):
        m_ = _re.search(rf'subroutine {kind_}\b.*?end subroutine {kind_}', flat, flags=_re.S | _re.I)
        body = m_.group(0) if m_ else ''
        for k_, expr_ in enumerate(dsl, start=1):
            line = _re.search(rf"^\s*{arr_}\({k_}\)\s*=\s*(.*)$", body, flags=_re.M | _re.I)
            tally.obligations += 1
            if line is None:
                tally.sat += 1
                viol.append(dict(kind='bvp-dsl', what=f"{kind_}: residual {k_} ({expr_}) is missing from the exported source"))
                continue
            used = sorted({int(i) for i in _re.findall(r"args\((\d+)\)", line.group(1))})
            expected = sorted({slot_of.get(p_, -1) for p_ in _re.findall(r"\bpar_(\w+)", expr_)})
            if used != expected:
                tally.sat += 1
                viol.append(dict(kind='bvp-dsl', what=f"{kind_} residual {k_} `{expr_}` reads PAR{used}, but parnames keeps "
                                                      f"these parameters in PAR{expected}"))
            else:
                tally.unsat += 1

    # (iv) slots ---------------------------------------------------------------------------------------
    slots = sorted(parnames)
    if any(10 <= s_ <= 14 for s_ in slots):
        viol.append(dict(kind='slots', what=f"parameter slots {slots} use the reserved range 10..14"))
    if len(set(slots)) != len(slots):
        viol.append(dict(kind='slots', what=f"parameter slots are not pairwise distinct: {slots}"))
    if ndim != ny:
        viol.append(dict(kind='ndim', what=f"NDIM = {ndim} for {ny} state variables"))
    if slots and npar != max(slots):
        viol.append(dict(kind='npar', what=f"NPAR = {npar}, largest parameter slot is {max(slots)}"))
    # (i) STPNT ----------------------------------------------------------------------------------------
    symx.Ctx.cur = symx.Ctx()
    nslot = max(slots + [14]) + 2
    y_st = SArr(np.empty(ny, dtype=object))
    a_st = SArr(np.empty(nslot, dtype=object))
    try:
        it.call('stpnt', [ny, y_st, a_st, symx.val(0)])
    except (f90smt.F90Error, symx.Unsupported) as e:
        viol.append(dict(kind='stpnt', what=f"STPNT cannot be executed: {e}"))
        out['tally'] = tally.as_dict()
        return out
    slot_sym, slot_val = {}, {}
    for s_ in range(1, nslot + 1):
        cell = a_st[s_ - 1]
        if cell is None:
            continue
        val = symx.const_value(symx.lift(cell))
        slot_val[s_] = val
        if val in syms.table:
            slot_sym[s_] = syms.table[val]
    for s_ in slots:
        if s_ not in slot_val:
            viol.append(dict(kind='stpnt', what=f"parnames lists slot {s_} ({parnames[s_]}) but STPNT does not initialise args({s_})"))
    for s_ in slot_val:
        if s_ not in parnames:
            viol.append(dict(kind='stpnt', what=f"STPNT initialises args({s_}) = {float(slot_val[s_])} which parnames does not list"))
    # every declared parameter value that the model uses must sit in some slot
    pos = {}
    for j in range(ny):
        cell = y_st[j]
        if cell is None:
            viol.append(dict(kind='stpnt', what=f"STPNT does not initialise y({j + 1})"))
            continue
        val = symx.const_value(symx.lift(cell))
        k = syms.state_pos_fp.get(val)
        if k is None:
            viol.append(dict(kind='stpnt', what=f"STPNT sets y({j + 1}) = {float(val)}, which is no declared initial value"))
        else:
            pos[k] = [j]
    y0 = np.asarray(args[1], dtype=float).reshape(-1)
    for k, p in pos.items():
        if abs(y0[p[0]] - float(spec.value_of(*k))) > 1e-12:
            viol.append(dict(kind='stpnt', what=f"STPNT and the returned initial state disagree on the position of {'/'.join(k)}"))
    ref_states = refsem.Ref(spec, None, None, None, None).state_vars()
    if set(pos) != set(ref_states):
        viol.append(dict(kind='stpnt', what=f"STPNT initialises {sorted(pos)} for declared states {sorted(ref_states)}"))
    if viol:
        out['tally'] = tally.as_dict()
        return out
    # unames: the short name at state position j must be the variable name of the state STPNT put there
    for k, p in pos.items():
        nm = unames.get(p[0] + 1)
        if nm is None or not (nm == k[2] or nm.startswith(k[2] + '_v')):
            viol.append(dict(kind='unames', what=f"unames[{p[0] + 1}] = {nm!r} but y({p[0] + 1}) is {'/'.join(k)}"))
    # (ii) FUNC through the forwarding call ---------------------------------------------------------------
    y_sym = symx.symarray('y', ny)
    a_sym = np.empty(nslot, dtype=object)
    for s_ in range(1, nslot + 1):
        a_sym[s_ - 1] = slot_sym.get(s_, symx.val(slot_val[s_]) if s_ in slot_val else symx.real(f"par{s_}"))
    a_sym = SArr(a_sym)
    dy = SArr(np.empty(ny, dtype=object))
    dfdu = SArr(np.full((ny, ny), None, dtype=object))
    dfdp = SArr(np.full((ny, nslot), None, dtype=object))
    for ix in np.ndindex(ny, ny):
        dfdu[ix] = symx.val(0)
    for ix in np.ndindex(ny, nslot):
        dfdp[ix] = symx.val(0)
    icp = np.array([14] * 4)
    try:
        it.call('func', [ny, y_sym, icp, a_sym, 2, dy, dfdu, dfdp])
    except (f90smt.F90Error, symx.Unsupported) as e:
        viol.append(dict(kind='func', what=f"FUNC cannot be executed: {e}"))
        out['tally'] = tally.as_dict()
        return out
    pc = list(symx.Ctx.cur.pc)

    def Y(n, o, v): return y_sym[pos[(n, o, v)][0]]       # noqa
    def P(n, o, v): return syms.P[(n, o, v)]              # noqa
    def W(i): return syms.Wsym[i]                         # noqa
    R = refsem.Ref(spec, refsem.SymDom(), P, Y, W, None)
    for sv in ref_states:
        gen = dy[pos[sv][0]]
        if gen is None:
            viol.append(dict(kind='func', what=f"FUNC does not assign dy({pos[sv][0] + 1})"))
            continue
        v, model = decide.prove_equal(gen, R.deriv(*sv), pc=pc, tally=tally)
        out['obligations'].append(dict(var='/'.join(sv), verdict=v))
        if v == 'sat':
            dis = decide.numeric_disagreement(gen, R.deriv(*sv), model, pc=pc)
            if dis is None:
                tally.sat_spurious += 1
                out['inconclusive'].append(dict(kind='sat-not-reproduced', what='/'.join(sv)))
            else:
                tally.sat_confirmed += 1
                viol.append(dict(kind='vector-field', what=f"exported FUNC: d/dt {'/'.join(sv)} differs from the model when "
                                 f"PAR slots hold what STPNT puts there (gen {dis[1]}, model {dis[2]})", env=dis[0],
                                 gen=str(z3.simplify(symx.lift(gen)))[:300]))
        elif v == 'unknown':
            out['inconclusive'].append(dict(kind='solver-unknown', what='/'.join(sv)))
    # parnames vs the routine's dummy names (slot -> name)
    vf = it.units.get('vf')
    if vf is not None:
        # the forwarding call tells which slot feeds which dummy
        m = re.search(r"call\s+vf\s*\((.*?)\)\s*$", '\n'.join(f90smt.logical_lines(src)), re.I | re.M)
        if m:
            actual = [a.strip() for a in f90smt._split_top(m.group(1))]
            for dummy, act in zip(vf.args, actual):
                mm = re.match(r"args\((\d+)\)", act)
                if mm and dummy not in ('t',):
                    s_ = int(mm.group(1))
                    if s_ == 14:
                        continue
                    if parnames.get(s_) != dummy:
                        viol.append(dict(kind='parnames', what=f"slot {s_} is forwarded to the routine's parameter `{dummy}` "
                                         f"but parnames calls it {parnames.get(s_)!r}"))
    # declaration order
    decl = []
    for o in spec.ops.values():
        decl += [v for v, (k_, _) in o.vars.items() if k_ in ('const', 'input')]
    order = [parnames[s_] for s_ in slots]
    base = lambda n_: re.sub(r"_v\d+$", '', n_)      # noqa
    idx = [decl.index(base(n_)) for n_ in order if base(n_) in decl and not n_.startswith('weight')]
    ao = [i for i, n_ in zip(idx, [n_ for n_ in order if base(n_) in decl and not n_.startswith('weight')]) if n_.startswith('p')]
    if ao != sorted(ao):
        viol.append(dict(kind='slot-order', what=f"parameter slots do not follow the declaration order: {order}"))
    # (iii) DFDU / DFDP vs forward-mode AD of the emitted routine ----------------------------------------------
    yd = SArr([Dual(y_sym[j], {('y', j): symx.val(1)}) for j in range(ny)])
    ad_args = []
    vf_unit = it.units['vf']
    call_m = re.search(r"call\s+vf\s*\((.*?)\)\s*$", '\n'.join(f90smt.logical_lines(src)), re.I | re.M)
    actual = [a.strip() for a in f90smt._split_top(call_m.group(1))]
    dyd = SArr(np.empty(ny, dtype=object))
    for act in actual:
        mm = re.match(r"args\((\d+)\)", act)
        if act == 'y':
            ad_args.append(yd)
        elif act == 'dy':
            ad_args.append(dyd)
        elif mm:
            s_ = int(mm.group(1))
            base_v = a_sym[s_ - 1]
            ad_args.append(Dual(base_v, {('p', s_): symx.val(1)}) if s_ != 14 else base_v)
        else:
            ad_args.append(symx.val(0))
    try:
        it.call('vf', ad_args)
    except (f90smt.F90Error, symx.Unsupported) as e:
        out['inconclusive'].append(dict(kind='engine', what=f"AD run of the vector-field routine failed: {e}"))
        out['tally'] = tally.as_dict()
        return out
    zero = symx.val(0)
    for i in range(ny):
        d = dyd[i]
        for j in range(ny):
            ref = d.t.get(('y', j), zero) if isinstance(d, Dual) else zero
            _cmp(out, tally, dfdu[i, j], ref, f"DFDU({i + 1},{j + 1})", pc)
        for s_ in slots:
            ref = d.t.get(('p', s_), zero) if isinstance(d, Dual) else zero
            _cmp(out, tally, dfdp[i, s_ - 1], ref, f"DFDP({i + 1},{s_})", pc)
        for s_ in range(1, nslot + 1):
            if s_ not in slots:
                cell = dfdp[i, s_ - 1]
                if symx.const_value(symx.lift(cell)) != 0:
                    viol.append(dict(kind='dfdp', what=f"DFDP({i + 1},{s_}) is written although slot {s_} holds no parameter"))
    out['tally'] = tally.as_dict()
    return out


def _cmp(out, tally, gen, ref, what, pc):
    v, model = decide.prove_equal(gen, ref, pc=pc, tally=tally)
    if v == 'sat':
        dis = decide.numeric_disagreement(gen, ref, model, pc=pc)
        if dis is None:
            tally.sat_spurious += 1
            out['inconclusive'].append(dict(kind='sat-not-reproduced', what=what))
        else:
            tally.sat_confirmed += 1
            out['violations'].append(dict(kind='jacobian-block', what=f"{what} = {dis[1]} in the exported routine, derivative of "
                                          f"the exported vector field is {dis[2]}", env=dis[0],
                                          gen=str(z3.simplify(symx.lift(gen)))[:200], ref=str(z3.simplify(symx.lift(ref)))[:200]))
    elif v == 'unknown':
        out['inconclusive'].append(dict(kind='solver-unknown', what=what))


def run(tier='quick', seed=0, only=None, verbose=False):
    rep = Report('C18', tier, seed, 'translation_validation', functions_encoded=[
        'exported .f90: FUNC (through call vf(...)), STPNT, vector-field routine (f90smt interpreter, symx / AD)',
        'c.* constants files (parsed)', 'FortranBackend._generate_auto_files / _emit_auto_jacobian_block / '
        'generate_func_head (concrete)', 'FortranBackend._auto_param_indices, add_code_line/break_line (CrossHair)'],
        bounds=dict(parameters='2..22 per operator (+ edge weights), crossing slots 9/15', states='3',
                    scenarios='default c.ivp (+ auto_constants in thorough)'),
        stubs=['f2py replaced by gfortran + ctypes stand-in (harness); DFDU/DFDP assumed zero-initialised by the caller'],
        assumptions=['reals for floats', 'auto-07p itself is not run', 'BCND/ICND DSL: only the slots read by par_<name> tokens are checked (textual)'])
    progs = fam_auto(seed, 8 if tier == 'quick' else 160)
    jobs = [dict(key=k, spec=s) for k, s in progs]
    if tier == 'thorough':
        jobs += [dict(key=k + '|scenarios', spec=s, kw=dict(auto_constants=('eq', 'lc'))) for k, s in progs[:8]]
    # boundary-value export with DSL residuals that name parameters on both sides of the reserved slots
    for k, s in progs:
        npar = int(k.split('npar=')[1]) if 'npar=' in k else 0
        if npar >= 10:
            bcs = [f"u0_x - par_p{npar - 1}*u1_z", "u1_x - par_p1", f"u0_z - par_p9 - par_p{npar - 2}"]
            ics = [f"u_z - par_p{npar - 3}", "u_x*par_p0 - par_p8"]
            if 'bq' in s.ops['ao'].vars:
                bcs = bcs + ["u1_x - par_bq*u0_x"]
            if 'z' not in s.ops['ao'].vars:
                bcs, ics = [b.replace('_z', '_x') for b in bcs], [i_.replace('_z', '_x') for i_ in ics]
            jobs.append(dict(key=k + '|bvp', spec=s, kw=dict(auto_constants=('bvp',), boundary_conditions=bcs,
                                                            integral_constraints=ics)))
    # two exports in one process: the second one must not inherit anything from the first
    for (k1, s1), (k2, s2) in ((progs[1], progs[0]), (progs[2], progs[3])) if len(progs) >= 4 else ():
        jobs.append(dict(key=f"{k2}|after-export-of:{k1}", spec=s2, first=s1))
    if only:
        jobs = [j for j in jobs if only in j['key']]
    for job, outc in runner.run_jobs(auto_job, jobs, timeout=600):
        if not outc['ok']:
            rep.harness_error(f"{job['key']}: {outc['error']} {outc.get('tb', '')[-500:]}")
            continue
        r = outc['result']
        rep.add_stats(outc['stats'])
        rep.add_tally(r['tally'])
        rep.program(job['key'], sample=dict(key=job['key'], cfile=r['cfile'][:300], obligations=r['obligations'][:4])
                    if rep.programs % 5 == 0 else None, nontrivial='compile_error' not in r)
        if 'compile_error' in r:
            rec = dict(property='C18', key=job['key'], kind='compile-raises', what=f"{job['key']}: auto export raises {r['compile_error'][:300]}")
            rep.violation(rec, findings.attribute('C18', job, rec))
            continue
        for v in r['violations']:
            rec = dict(property='C18', key=job['key'], spec=job['spec'].describe(), spec_blob=tvspec.spec_blob(job['spec']),
                       exported_source=r['src'], cfile=r['cfile'], **v)
            rec['what'] = f"{job['key']}: {v.get('what')}"
            rep.violation(rec, findings.attribute('C18', job, rec))
        for i in r['inconclusive']:
            rep.inconcl(dict(key=job['key'], **{k: str(x)[:200] for k, x in i.items()}))
    if not only or 'crosshair' in only:
        ch.consume(rep, 'pyverif.chh.c18_auto', timeout=90 if tier == 'quick' else 300)
    return rep.finish(rule='program = scalar model with N parameters exported with auto=True; obligations: FUNC (through its '
                           'forwarding call, PAR slots bound to the parameters STPNT initialises) == reference per state; '
                           'every DFDU/DFDP entry == forward-mode derivative of the exported routine; slot/name/NDIM/NPAR '
                           'consistency of the c.* file')
