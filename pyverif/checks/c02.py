"""C02 -- all backends compute the same function for the same model.

One generated spec is compiled for the NumPy, PyTorch and JAX backends (and Fortran, through the f90 translator); the
emitted text of each is executed symbolically with the respective library model and proved equal to the SAME reference
semantics (hence the backends agree with one another) - both vector-field conventions (in-place buffer and returned
array), vectorize on/off where the backend allows, models exercising the function tables (interp of extrinsic inputs,
sigmoid, matvec, weighted sums, index helpers, roll-based delay buffers, maxi/mini/absv/sign).  The backends' own
fixed-step kernels are decided in C03.  Returned argument values are compared across backends and precisions.
"""
from fractions import Fraction as F

import numpy as np

from .. import families, tv, tvspec, decide, tvjobs, tvdelay, runner, findings, symx
from .. import expr as X
from ..expr import V, C
from ..spec import OpSpec, NodeSpec, EdgeSpec, ModelSpec, FP, build_python
from ..report import Report
from .c01 import FUNCS

BACKENDS = ['default', 'torch', 'jax']
DT = F(1, 4)


def fam_functions():
    """one program per function of the equation language a backend registers"""
    out = []
    fns = [('tanh', 1), ('sinh', 1), ('cosh', 1), ('arctan', 1), ('sin', 1), ('cos', 1), ('tan', 1), ('exp', 1),
           ('sigmoid', 1), ('absv', 1), ('sign', 1), ('log', 1), ('maxi', 2), ('mini', 2)]
    for name, ar in fns:
        fp = FP()
        args = [X.add(V('x'), V('a'))] if ar == 1 else [X.mul(V('a'), V('x')), X.sub(V('u'), V('b'))]
        if name == 'log':
            args = [X.add(X.mul(V('x'), V('x')), V('a'))]
        e = X.add(X.mul(V('b'), X.call(name, *args)), X.mul(V('k'), V('u')))
        op = OpSpec('fo', [('x', 'de', e)], {'x': ('state', fp()), 'u': ('input', F(0)), 'a': ('const', fp()),
                                            'b': ('const', fp()), 'k': ('const', fp())}, output='x')
        nodes = {f"n{i}": NodeSpec(['fo'], families._node_overrides(fp, {'fo': op}, ['fo'])) for i in range(2)}
        edges = [EdgeSpec('n0/fo/x', 'n1/fo/u', fp()), EdgeSpec('n1/fo/x', 'n0/fo/u', fp())]
        out.append((f"FF:{name}", ModelSpec('m', {'fo': op}, nodes, edges, note=f"function {name}")))
    # literal constants that binary32 does not hold exactly (1/10, 7/10, 3/5): a backend that prints them as
    # single precision literals computes another function
    fp = FP()
    e = X.add(X.add(X.mul(X.neg(C(F(1, 10))), V('x')), X.mul(C(F(3, 5)), X.mul(V('x'), V('x')))),
              X.add(X.mul(V('k'), V('u')), C(F(7, 10))))
    op = OpSpec('fo', [('x', 'de', e)], {'x': ('state', fp()), 'u': ('input', F(0)), 'k': ('const', fp())}, output='x')
    nodes = {f"n{i}": NodeSpec(['fo'], families._node_overrides(fp, {'fo': op}, ['fo'])) for i in range(2)}
    edges = [EdgeSpec('n0/fo/x', 'n1/fo/u', fp()), EdgeSpec('n1/fo/x', 'n0/fo/u', fp())]
    out.append(("FF:literal-kinds", ModelSpec('m', {'fo': op}, nodes, edges, note="non-dyadic literals")))
    return out


def job_fn(job):
    spec = job['spec']
    kw = dict(job.get('compile_kw', {}))
    plugin = None
    t_sym = None
    if job.get('delay'):
        plugin = tvdelay.RingBufferPlugin(DT)
        t_sym = 2
    if job.get('chain'):
        plugin = tvdelay.ChainPlugin()
    ct = build_python(spec)
    if job['backend'] == 'fortran':
        from .. import f2pystub
        f2pystub.install()
    try:
        c = tv.compile_template(ct, backend=job['backend'], vectorize=job['vectorize'], step_size=float(DT),
                                solver=job.get('solver', 'euler'), **kw)
    except tv.CompileError as e:
        return dict(status='compile-raises', error=str(e))
    tally = decide.Tally()
    res = tvspec.validate(spec, c, tally, vectorized=job['vectorize'], plugin=plugin, t_sym=t_sym)
    if job['backend'] == 'fortran':
        # kinds of the module-level constants (invisible to the real-valued encoding): float64 was requested
        from .. import f90smt
        for nm, init, as_written, in_double in f90smt.kind_mismatches(c.src):
            tally.obligations += 1
            tally.sat += 1
            tally.sat_confirmed += 1
            res['violations'].append(dict(kind='fortran-constant-kind', constant=nm,
                                          what=f"the emitted module declares `double precision :: {nm.upper()} = {init}`: the "
                                               f"initialiser is a default-real (single precision) expression, so {nm.upper()} "
                                               f"= {as_written!r} instead of {in_double!r} although float64 was requested"))
        for stmt, lit_, used, written in f90smt.inexact_default_real_literals(c.src):
            tally.obligations += 1
            tally.sat += 1
            tally.sat_confirmed += 1
            res['violations'].append(dict(kind='fortran-literal-kind', literal=lit_,
                                          what=f"the emitted Fortran statement `{stmt}` uses the default-real literal {lit_} in a "
                                               f"double precision expression: Fortran computes with {used!r}, the model (and "
                                               f"every other backend) with {written!r}"))
    # returned argument values in float64 (compared across backends by the parent)
    argvals = {}
    for k, a in zip(c.keys, c.args):
        if callable(a) and not hasattr(a, 'shape'):
            continue
        try:
            arr = np.asarray(a.detach().cpu().numpy() if hasattr(a, 'detach') else a, dtype=float)
            argvals[k] = arr.reshape(-1).tolist()[:64]
        except Exception:   # noqa
            pass
    return dict(status='ok', res=res, tally=tally.as_dict(), src=c.src, keys=list(c.keys),
                smap={k: str(v) for k, v in c.smap.items()}, argvals=argvals)


def precision_history_job(job):
    """both float precisions in ONE process (concrete, not solver-decided): a function compiled with float64 keeps
    returning its float64 value after a float32 model has been compiled for the same backend, and agrees with the
    NumPy float64 function of the same model to 1e-12"""
    out = dict(violations=[], checked=0)
    spec = job['spec']
    b = job['backend']
    call = lambda c: np.asarray(tv.tv_to_np(c.func(*c.args)), dtype=np.float64).reshape(-1).copy()      # noqa
    try:
        c_np = tv.compile_template(build_python(spec), backend='default', vectorize=True, step_size=float(DT))
        ref = call(c_np)
        c64 = tv.compile_template(build_python(spec), backend=b, vectorize=True, step_size=float(DT))
        v1 = call(c64)
        tv.compile_template(build_python(job['other']), backend=b, vectorize=True, step_size=float(DT),
                            float_precision='float32')
        v2 = call(c64)
    except tv.CompileError as e:
        out['inconclusive'] = [dict(what=f"compile raised: {e}")]
        return out
    out['checked'] = 1
    scale = max(1.0, float(np.max(np.abs(ref))))
    if np.max(np.abs(v1 - ref)) > 1e-11 * scale:
        out['violations'].append(dict(kind='precision', what=f"{b} float64 vector field differs from the NumPy float64 one "
                                      f"by {np.max(np.abs(v1 - ref)):.3g} right after compilation"))
    if np.max(np.abs(v2 - v1)) > 1e-13 * scale:
        out['violations'].append(dict(kind='precision-history', what=f"a {b} function compiled with float_precision='float64' "
                                      f"returns another value (difference {np.max(np.abs(v2 - v1)):.3g}) after an unrelated "
                                      f"float32 model was compiled for the same backend"))
    return out


def run(tier='quick', seed=0, only=None, verbose=False):
    rep = Report('C02', tier, seed, 'translation_validation', functions_encoded=FUNCS + [
        'emitted torch text (symx, torch library model) incl. the helper defs PyRates prepends (interp, wsum)',
        'emitted jax text (symx, jax.numpy library model: .at[].set, jit = identity)',
        'ComputeGraphBackProp text (inplace_vectorfield=False)',
        'emitted Fortran 90 text through pyverif.f90smt (see section fortran)'],
        bounds=dict(backends=BACKENDS + ['fortran (vectorize=False only)'], conventions='in-place dy buffer and returned array',
                    models='function table programs, C01 edge multisets (<=2 edges), mixed node types, discrete delays '
                           '(numpy, torch), gamma chains, extrinsic inputs (fixed step and adaptive)'),
        stubs=['numpy / torch / jax.numpy library models (validated against the real libraries on this run)'],
        assumptions=['reals for floats: agreement "to working precision" of the numerical libraries themselves is not '
                     'claimed', 'the backends\' solver kernels are decided under C03; adaptive integrators are outside',
                     'GPU, Julia and Matlab backends are outside'])
    progs = []
    progs += fam_functions()
    progs += [p for p in families.fam_edges_two_nodes(2, 2) if len(set(eval(p[0].split(':', 2)[2]))) == len(eval(p[0].split(':', 2)[2]))][:12]
    progs += families.fam_mixed_nodes(seed, n=4 if tier == 'quick' else 30)
    progs += families.fam_vectorization(seed, n=4 if tier == 'quick' else 40, max_per_type=3)
    progs += families.fam_edge_templates()[:2]
    jobs = []
    for key, spec in progs:
        for b in BACKENDS:
            for vec in (True, False):
                if tier == 'quick' and not vec and b != 'default' and not key.startswith('FF'):
                    continue
                jobs.append(dict(key=f"{key}|{b}|vec={vec}", spec=spec, backend=b, vectorize=vec))
        jobs.append(dict(key=f"{key}|fortran|vec=False", spec=spec, backend='fortran', vectorize=False))
        # returned-array convention
        for b in (BACKENDS if tier == 'thorough' else ['default']):
            jobs.append(dict(key=f"{key}|{b}|vec=True|backprop", spec=spec, backend=b, vectorize=True,
                             compile_kw=dict(inplace_vectorfield=False)))
            jobs.append(dict(key=f"{key}|{b}|vec=False|backprop", spec=spec, backend=b, vectorize=False,
                             compile_kw=dict(inplace_vectorfield=False)))
    for key, spec in families.fam_discrete_delays_fixed()[:4] + families.fam_discrete_delays(seed, n=3 if tier == 'quick' else 20):
        for b in ('default', 'torch'):
            jobs.append(dict(key=f"{key}|{b}|vec=True|delay", spec=spec, backend=b, vectorize=True, delay=True))
        jobs.append(dict(key=f"{key}|fortran|vec=False|delay", spec=spec, backend='fortran', vectorize=False, delay=True))
    for key, spec in families.fam_gamma_fixed()[:3]:
        for b in BACKENDS:
            jobs.append(dict(key=f"{key}|{b}|vec=True|chain", spec=spec, backend=b, vectorize=True, chain=True))
        jobs.append(dict(key=f"{key}|fortran|vec=False|chain", spec=spec, backend='fortran', vectorize=False, chain=True))
    if only:
        jobs = [j for j in jobs if only in j['key']]
    # run and additionally compare returned argument values across backends of the same (spec, vectorize)
    argsets = {}
    orig_fn = job_fn

    def consume():
        for job, outc in runner.run_jobs(orig_fn, jobs, timeout=600):
            yield job, outc
    for job, out in consume():
        key = job['key']
        spec = job['spec']
        if not out['ok']:
            rep.harness_error(f"{key}: {out['error']} {out.get('tb', '')[-400:]}")
            continue
        rep.add_stats(out['stats'])
        r = out['result']
        base = dict(property='C02', key=key, spec=spec.describe(), spec_blob=tvspec.spec_blob(spec),
                    job={k: str(v) for k, v in job.items() if k in ('vectorize', 'backend', 'compile_kw')})
        if r['status'] == 'compile-raises':
            rec = dict(base, kind='compile-raises', what=f"{key}: model accepted by the NumPy backend is rejected: {r['error'][:300]}")
            rep.program(key, nontrivial=False)
            rep.violation(rec, findings.attribute('C02', job, rec))
            continue
        rep.add_tally(r['tally'])
        res = r['res']
        rep.program(key, sample=dict(key=key, emitted_source=r['src'][-900:], obligations=res['obligations'][:4])
                    if rep.programs % 41 == 0 else None, nontrivial=bool(res['obligations']))
        for v in res['violations']:
            rec = dict(base, emitted_source=r['src'], arg_names=r['keys'], **v)
            rec['what'] = f"{key}: {v.get('what')}"
            rep.violation(rec, v.get('finding') or findings.attribute('C02', job, rec))
        for i in res['inconclusive']:
            rep.inconcl(dict(key=key, **{k: str(x)[:300] for k, x in i.items()}))
        if 'backprop' not in key and 'delay' not in key and 'chain' not in key:
            argsets.setdefault((key.split('|')[0], job['vectorize']), {})[job['backend']] = r['argvals']
    # extrinsic inputs through each backend's interp / index code (same harness as C08) -----------------------
    from . import c08
    ij = []
    for j in c08.jobs_for('quick'):
        if j['hier'] or j['N'] != 3:
            continue
        for b in ('torch', 'jax'):
            ij.append(dict(j, backend=b, key=f"{j['key']}|{b}"))
        if not j['vectorize'] and j['cols'] == 0:
            ij.append(dict(j, backend='fortran', key=f"{j['key']}|fortran"))
    if only:
        ij = [j for j in ij if only in j['key']]
    for job, outc in runner.run_jobs(c08.input_job, ij, timeout=600):
        if not outc['ok']:
            rep.harness_error(f"{job['key']}: {outc['error']} {outc.get('tb', '')[-400:]}")
            continue
        r = outc['result']
        rep.add_stats(outc['stats'])
        rep.add_tally(r['tally'])
        rep.program(job['key'], sample=dict(key=job['key'], emitted=r['src'][-600:]) if rep.programs % 29 == 0 else None,
                    nontrivial=bool(r['obligations']))
        if 'compile_error' in r:
            rec = dict(property='C02', key=job['key'], kind='compile-raises',
                       what=f"{job['key']}: input request accepted by the NumPy backend is rejected: {r['compile_error'][:300]}")
            rep.violation(rec, findings.attribute('C02', job, rec))
            continue
        for v in r['violations']:
            rec = dict(property='C02', key=job['key'], emitted_source=r['src'], **v)
            rec['what'] = f"{job['key']}: {v.get('what')}"
            rep.violation(rec, v.get('finding') or findings.attribute('C02', job, rec))
        for i in r['inconclusive']:
            rep.inconcl(dict(key=job['key'], **{k: str(x)[:300] for k, x in i.items()}))
    # argument values across backends: same names -> same values
    n_cmp = 0
    for (k, vec), by in argsets.items():
        if 'default' not in by:
            continue
        ref = by['default']
        for b, vals in by.items():
            if b == 'default':
                continue
            for name, v in vals.items():
                if name in ref:
                    n_cmp += 1
                    if len(v) != len(ref[name]) or not np.allclose(v, ref[name], rtol=1e-12, atol=0):
                        rep.violation(dict(property='C02', key=f"{k}|{b}|vec={vec}", kind='argument-values',
                                           what=f"{k}: argument {name} is {v[:6]} on backend {b} and {ref[name][:6]} on numpy"))
    rep.section('argument_values', compared=n_cmp)
    pj = []
    fm = families.fam_mixed_nodes(seed, n=2)
    for b in ('jax', 'torch'):
        pj.append(dict(key=f"precision-history:{b}", backend=b, spec=fm[0][1], other=fm[1][1]))
    if only:
        pj = [j for j in pj if only in j['key']]
    for job, outc in runner.run_jobs(precision_history_job, pj, timeout=600):
        if not outc['ok']:
            rep.harness_error(f"{job['key']}: {outc['error']} {outc.get('tb', '')[-400:]}")
            continue
        r = outc['result']
        rep.program(job['key'], nontrivial=bool(r['checked']))
        rep.section('precision_history', probes=r['checked'])
        for v in r['violations']:
            rec = dict(property='C02', key=job['key'], **v)
            rec['what'] = f"{job['key']}: {v['what']}"
            rep.violation(rec, findings.attribute('C02', job, rec))
        for i in r.get('inconclusive', []):
            rep.inconcl(dict(key=job['key'], **i))
    # same solver settings -> same trajectories: each backend's own fixed-step kernel (BaseBackend, TorchBackend, JaxBackend
    # _solve_euler/_solve_heun) integrates ONE uninterpreted, time-dependent vector field; all must return the same
    # reference iterates (harness of C03, a small grid here)
    from . import c03
    kj = []
    for steps, store in ((2, 1), (3, 1), (4, 2), (6, 2)) if tier == 'quick' else ((2, 1), (3, 1), (4, 2), (5, 1), (6, 2), (6, 3), (7, 2), (8, 2)):
        for backend, heuns, t0 in (('base', (False, True), 'sym'), ('torch', (False,), 0), ('jax', (False, True), 0)):
            for heun in heuns:
                kj.append(dict(kind='kernel', backend=backend, heun=heun, steps=steps, store=store, rem=0,
                               n=1 + steps % 2, t0=t0,
                               key=f"trajectory:{backend}:{'heun' if heun else 'euler'}:steps={steps}:store={store}"))
    if only:
        kj = [j for j in kj if only in j['key']]
    alias = {}
    if kj:
        for pj, outc in runner.run_jobs(c03._alias_job, [dict(key=f"alias:{b}", backend=b) for b in ('base', 'torch', 'jax')],
                                        timeout=300):
            if not outc['ok']:
                rep.harness_error(f"{pj['key']}: {outc['error']}")
                continue
            alias[pj['backend']] = outc['result']
    for j in kj:
        j['alias'] = alias.get(j['backend'])
    for job, outc in runner.run_jobs(c03.kernel_job, kj, timeout=600):
        if not outc['ok']:
            rep.harness_error(f"{job['key']}: {outc['error']} {outc.get('tb', '')[-400:]}")
            continue
        r = outc['result']
        rep.add_stats(outc['stats'])
        rep.add_tally(r['tally'])
        rep.program(job['key'], nontrivial=bool(r['tally']['obligations']))
        rep.section('trajectories', jobs=1, obligations=r['tally']['obligations'])
        for v in r['violations']:
            rec = dict(property='C02', key=job['key'], job={k: str(x) for k, x in job.items()}, **v)
            rec['what'] = f"{job['key']}: {v['what']}"
            rep.violation(rec, findings.attribute('C02', job, rec))
        for i in r['inconclusive']:
            rep.inconcl(dict(key=job['key'], **{k: str(x)[:200] for k, x in i.items()}))
    return rep.finish(rule='program = (spec, backend in numpy/torch/jax, vectorize, vector-field convention); one SMT '
                           'obligation per state variable: emitted derivative == the same reference semantics for all '
                           'backends; plus concrete comparison of the returned argument values by name')
