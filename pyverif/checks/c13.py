"""C13 -- results do not depend on what the process did before.

Bounded histories of public API calls are executed in ONE process: constructing/compiling/simulating/clearing decoy
models that share an operator NAME (with different equations), an operator STRUCTURE (with different values), template
OBJECTS or an output FILE NAME with the target.  Then the target model is compiled and validated against its own
reference semantics (which knows nothing about the history): z3 proves the emitted vector field equal to the model for
all states/parameters, fingerprints check the returned values.  Every function returned earlier in the history is
re-checked at the end: its text (captured when it was returned) was validated against its own model, and the real
function object must still return, on the arguments it was returned with, what it returned then.
CrossHair additionally decides OperatorTemplate.apply for two templates with symbolic names / equations.
"""
import copy
import itertools
import os
import random
import shutil
import warnings
from fractions import Fraction as F

import numpy as np

from .. import families, tv, tvspec, decide, runner, findings, ch
from .. import expr as X
from ..expr import V
from ..spec import OpSpec, NodeSpec, EdgeSpec, ModelSpec, FP, build_python
from ..report import Report
from .c01 import FUNCS


def model(kind, fp_start):
    """A: target. B: operator with the SAME NAME 'o1' but another equation. C: same structure and names as A, other
    values and other edges. D: different everything (control). E: A with other values only (the emitted text of E and
    A is the same, so they meet in every cache that is keyed by generated code)."""
    fp = FP(fp_start)
    if kind in ('A', 'C', 'E'):
        ops = {'o1': families.op_two_inputs(fp), 'li': families.op_leaky(fp)}
    elif kind == 'B':
        o1 = families.op_two_inputs(fp)
        # same name, same variables, different right-hand side
        e = X.sub(X.mul(V('g'), X.call('sin', V('u'))), X.mul(V('k'), X.mul(V('x'), V('c'))))
        o1 = OpSpec('o1', [('x', 'de', X.add(e, V('w')))], o1.vars, output='x')
        ops = {'o1': o1, 'li': families.op_leaky(fp, tau='tau')}
    else:
        ops = {'zz': families.op_rpo(fp, name='zz'), 'li2': families.op_leaky(fp, name='li2')}
    if kind == 'D':
        nodes = {'p0': NodeSpec(['zz'], families._node_overrides(fp, ops, ['zz'])),
                 'p1': NodeSpec(['li2'], families._node_overrides(fp, ops, ['li2']))}
        edges = [EdgeSpec('p0/zz/a', 'p1/li2/u', fp()), EdgeSpec('p1/li2/x', 'p0/zz/r_in', fp())]
    else:
        n = 3 if kind != 'C' else 2
        nodes = {f"n{i}": NodeSpec(['o1'], families._node_overrides(fp, ops, ['o1'])) for i in range(n)}
        nodes['m0'] = NodeSpec(['li'], families._node_overrides(fp, ops, ['li']))
        edges = [EdgeSpec('n0/o1/x', 'n1/o1/u', fp()), EdgeSpec('m0/li/x', 'n0/o1/w', fp()),
                 EdgeSpec('n1/o1/x', 'm0/li/u', fp())]
        if kind == 'C':
            edges = [EdgeSpec('n1/o1/x', 'n0/o1/u', fp()), EdgeSpec('m0/li/x', 'n1/o1/u', fp())]
    return ModelSpec(f"model{kind}", ops, nodes, edges, note=f"history model {kind}")


STEP_KINDS = ['compile', 'compile_with_input', 'compile_keep', 'compile_inplace', 'compile_inplace_edge_values', 'compile_inplace_noclear', 'compile_decorated', 'run', 'run_noclear', 'run_inplace',
              'jac', 'clear', 'clear_frontend', 'update_var', 'yaml']


def _halving(f, **kw):
    # a user decorator (public `decorator` keyword): the decorated function returns half of the vector field
    def g(*a):
        return 0.5 * np.asarray(f(*a))
    return g


def first_input(spec):
    for n, ns in spec.nodes.items():
        for o in ns.ops:
            for v, (kind, _) in spec.ops[o].vars.items():
                if kind == 'input':
                    return f"{n}/{o}/{v}"


def first_state(spec):
    for n, ns in spec.nodes.items():
        for o in ns.ops:
            for lhs, kind, _ in spec.ops[o].eqs:
                if kind == 'de':
                    return f"{n}/{o}/{lhs}"


def job_fn(job):
    import pyrates
    from pyrates import clear_frontend_caches
    hist = job['history']
    target_kind, vec = job['target'], job['vectorize']
    specs = {k: model(k, 40 * i) for i, k in enumerate('ABCDE')}
    live = {}
    kept = []      # (spec, Compiled, value at return time, snapshot of args)
    out = dict(violations=[], inconclusive=[], obligations=[], history=[f"{m}:{a}:{v}" for m, a, v in hist], src='')
    tally = decide.Tally()
    wd = tv.scratch_dir()
    old = os.getcwd()
    os.chdir(wd)

    def get(m):
        if m not in live:
            live[m] = build_python(specs[m])
        return live[m]
    try:
        with warnings.catch_warnings():
            warnings.simplefilter('ignore')
            for (m, act, v) in hist:
                try:
                    ct = get(m)
                    if act in ('compile', 'compile_keep'):
                        r = ct.get_run_func('vf', step_size=0.25, vectorize=v, verbose=False, float_precision='float64',
                                            in_place=False, file_name='pyrates_run')
                        if act == 'compile_keep':
                            src = open('pyrates_run.py').read()
                            c = tv.Compiled(r[0], tuple(r[1]), tuple(r[2]), dict(r[3]), src, 'vf', 'default', wd)
                            val = np.array(c.func(*[np.array(a, copy=True) if isinstance(a, np.ndarray) else a
                                                    for a in c.args]), dtype=float, copy=True)
                            snap = [np.array(a, copy=True) if isinstance(a, np.ndarray) else a for a in c.args]
                            kept.append((m, c, val, snap))
                    elif act == 'compile_with_input':
                        ct.get_run_func('vf', step_size=0.25, vectorize=v, verbose=False, float_precision='float64',
                                        in_place=False, file_name='pyrates_run', inputs={first_input(specs[m]): np.ones(3)})
                    elif act == 'compile_inplace':
                        # in-place translation followed by clear(): the template object stays usable
                        ct.get_run_func('vf', step_size=0.25, vectorize=v, verbose=False, float_precision='float64',
                                        in_place=True, clear=True, file_name='pyrates_run')
                    elif act == 'compile_inplace_edge_values':
                        # an in-place translation that is GIVEN values for one edge and one node variable; they belong to
                        # that translation only
                        e0 = specs[m].edges[0]
                        ct.get_run_func('vf', step_size=0.25, vectorize=v, verbose=False, float_precision='float64',
                                        in_place=True, clear=True, file_name='pyrates_run',
                                        edge_values={(e0.src, e0.tgt): {'weight': 6.75}},
                                        node_values={first_state(specs[m]): 7.25})
                    elif act == 'compile_inplace_noclear':
                        # in-place translation that is kept on the template (clear=False)
                        ct.get_run_func('vf', step_size=0.25, vectorize=v, verbose=False, float_precision='float64',
                                        in_place=True, clear=False, file_name='pyrates_run')
                    elif act == 'compile_decorated':
                        ct.get_run_func('vf', step_size=0.25, vectorize=v, verbose=False, float_precision='float64',
                                        in_place=False, file_name='pyrates_run', decorator=_halving)
                    elif act in ('run', 'run_noclear', 'run_inplace'):
                        ct.run(simulation_time=0.5, step_size=0.25, outputs={'o': first_state(specs[m])}, vectorize=v,
                               verbose=False, float_precision='float64', clear=(act != 'run_noclear'),
                               in_place=(act == 'run_inplace'))
                        if act == 'run_inplace':
                            live.pop(m, None)       # an in-place run may legitimately change its own template
                    elif act == 'jac':
                        ct.get_jacobian_func('jf', step_size=0.25, vectorize=False, verbose=False,
                                             float_precision='float64', in_place=False, file_name='pyrates_run')
                    elif act == 'clear':
                        pyrates.clear(ct)
                        live.pop(m, None)
                    elif act == 'clear_frontend':
                        clear_frontend_caches()
                    elif act == 'update_var':
                        c2 = copy.deepcopy(ct)
                        c2.update_var(node_vars={first_state(specs[m]): 6.5})
                    elif act == 'yaml':
                        d = tv.scratch_dir()
                        ct.to_yaml(f"{d}/model.yaml")
                except Exception as e:   # noqa -- a history step that fails loudly is not the subject here
                    out['history'].append(f"  step {m}:{act} raised {type(e).__name__}: {str(e)[:80]}")
        # ---- the target, built fresh from its spec -----------------------------------------
        spec = specs[target_kind]
        # reuse: the template OBJECT the history worked on (only compile_inplace/compile* steps touched it) is compiled
        # again; otherwise the target is built fresh from its spec
        ct = live[target_kind] if (job.get('reuse') and target_kind in live) else build_python(spec)
        try:
            c = tv.compile_template(ct, vectorize=vec, in_place=False)
        except tv.CompileError as e:
            out['violations'].append(dict(kind='compile-raises', what=f"after the history the target model cannot be "
                                          f"compiled: {str(e)[:300]}"))
            out['tally'] = tally.as_dict()
            return out
        out['src'] = c.src
        res = tvspec.validate(spec, c, tally, vectorized=vec)
        for v_ in res['violations']:
            v_['what'] = f"target after history: {v_.get('what')}"
        out['violations'] += res['violations']
        out['inconclusive'] += res['inconclusive']
        out['obligations'] += res['obligations']
        # state-map names must be the declared node names (no leftovers such as n0_num1)
        for k in c.smap:
            parts = k.split('/')
            node = '/'.join(parts[:-2])
            if node not in spec.nodes:
                out['violations'].append(dict(kind='state-map-name', what=f"target after history: state map names the "
                                              f"variable {k}; no node {node} was declared (names leak from earlier models)"))
        # ---- argument names of a translation with an extrinsic input: the generated input node is named after its target
        # variable only (no counter left over from earlier models)
        if any(a == 'compile_with_input' for _, a, _ in hist) and not out['violations']:
            try:
                c_in = tv.compile_template(build_python(spec), vectorize=vec, in_place=False,
                                           inputs={first_input(spec): np.ones(3)})
                import re as _re
                bad = [k for k in c_in.keys if any(_re.search(r"_num\d+$", part) for part in str(k).split('/'))]
                tally.obligations += 1
                if bad:
                    tally.sat += 1
                    out['violations'].append(dict(kind='argument-name', what=f"target after history: arguments of a translation "
                                                  f"with an extrinsic input are named {bad[:2]}; as first model of the process "
                                                  f"they carry no counter (names leak from earlier models)"))
                else:
                    tally.unsat += 1
            except tv.CompileError as e:
                out['violations'].append(dict(kind='compile-raises', what=f"after the history the target model with an "
                                              f"extrinsic input cannot be compiled: {str(e)[:300]}"))
        # ---- the reused template object must also still simulate: function handed to the integrator by run() -------
        if job.get('reuse') and not out['violations']:
            try:
                c_run = tv.capture_run(ct, simulation_time=0.5, step_size=0.25, outputs={'o': first_state(spec)},
                                       vectorize=vec, solver='euler')
            except tv.CompileError as e:
                out['violations'].append(dict(kind='run-raises', what=f"after the history, run() on the same template "
                                              f"object raises: {str(e)[:300]}"))
                c_run = None
            if c_run is not None:
                r3 = tvspec.validate(spec, c_run, tally, vectorized=True, twin=False)
                for v_ in r3['violations']:
                    v_['what'] = f"function integrated by run() after the history: {v_.get('what')}"
                out['violations'] += r3['violations']
                out['inconclusive'] += r3['inconclusive']
        # ---- functions returned earlier ----------------------------------------------------
        for (m, ck, val, snap) in kept:
            r2 = tvspec.validate(specs[m], ck, tally, vectorized=True, twin=False)
            for v_ in r2['violations']:
                v_['what'] = f"function returned earlier for model {m}: {v_.get('what')}"
            out['violations'] += r2['violations']
            try:
                now = np.array(ck.func(*[np.array(a, copy=True) if isinstance(a, np.ndarray) else a for a in snap]), dtype=float)
                live_now = np.array(ck.func(*[np.array(a, copy=True) if isinstance(a, np.ndarray) else a
                                              for a in ck.args]), dtype=float)
                if not (np.allclose(now, val, rtol=1e-12, atol=0) and np.allclose(live_now, val, rtol=1e-12, atol=0)):
                    out['violations'].append(dict(kind='earlier-function-changed',
                                                  what=f"the function returned earlier for model {m} now evaluates to "
                                                       f"{live_now.tolist()} on the arguments it was returned with "
                                                       f"(then: {val.tolist()})"))
                else:
                    tally.obligations += 1
                    tally.unsat += 1
            except Exception as e:   # noqa
                out['violations'].append(dict(kind='earlier-function-changed', what=f"the function returned earlier for "
                                              f"model {m} now raises {type(e).__name__}: {e}"))
    finally:
        os.chdir(old)
        shutil.rmtree(wd, ignore_errors=True)
    out['tally'] = tally.as_dict()
    return out


def shared_hierarchy_job(job):
    """template OBJECTS shared with an earlier, edited circuit: a three-level target whose mid-level circuit and leaf
    circuit are each one object under two keys; a decoy circuit is then built from the same mid-level object and one
    of its nodes is overridden (update_var on the decoy, or on a copy-free derived template).  The target - built
    before, never addressed - must still be the model of its spec."""
    from pyrates import CircuitTemplate
    from . import c07
    import pyrates
    spec, fp = c07.base_spec(job['shared'], 2, same_sub=True)
    out = dict(violations=[], inconclusive=[], obligations=[], history=[], src='')
    tally = decide.Tally()
    ct = build_python(spec, share_circuits=True)
    mid = ct.circuits['m0']
    try:
        if job['decoy'] == 'two-keys':
            other = CircuitTemplate('other', circuits={'a': mid, 'b': mid})
            other.update_var(node_vars={'a/c0/a0/o1/k': 6.5, 'b/c1/b0/li/x': 7.5})
            out['history'].append("other = CircuitTemplate(circuits={'a': mid, 'b': mid}); other.update_var(a/c0/a0/o1/k, b/c1/b0/li/x)")
        elif job['decoy'] == 'one-key-compiled':
            other = CircuitTemplate('other', circuits={'a': mid})
            other.update_var(node_vars={'a/c1/a1/o1/g': 6.5})
            other.get_run_func('vf', step_size=0.25, vectorize=job['vectorize'], verbose=False, float_precision='float64',
                               in_place=False, file_name='pyrates_run')
            out['history'].append("other = CircuitTemplate(circuits={'a': mid}); other.update_var(a/c1/a1/o1/g); other.get_run_func")
        else:
            other = copy.deepcopy(ct)
            other.update_var(node_vars={'m1/c0/a0/o1/k': 6.5})
            ct.circuits['m1'].update_var(node_vars={})       # a no-op edit on the target's own sub-circuit
            out['history'].append("deepcopy(target).update_var(m1/c0/a0/o1/k)")
    except Exception as e:   # noqa
        out['history'].append(f"decoy step raised {type(e).__name__}: {str(e)[:80]}")
    # the target's own (legal) edits: every state variable gets its own initial value, so that positions are identifiable
    ops, exp, _kw = c07.gen_history(spec, fp, random.Random(0), 0, 2)
    out['exp_spec'] = exp
    try:
        c07.apply_ops(ct, ops)
        c = tv.compile_template(ct, vectorize=job['vectorize'], in_place=False)
    except Exception as e:   # noqa
        out['violations'].append(dict(kind='compile-raises', what=f"after the history the target model cannot be "
                                      f"compiled: {type(e).__name__}: {str(e)[:300]}"))
        out['tally'] = tally.as_dict()
        return out
    out['src'] = c.src
    res = tvspec.validate(exp, c, tally, vectorized=job['vectorize'])
    for v_ in res['violations']:
        v_['what'] = f"target after history: {v_.get('what')}"
    out['violations'] += res['violations']
    out['inconclusive'] += res['inconclusive']
    out['obligations'] += res['obligations']
    out['tally'] = tally.as_dict()
    return out


def yaml_reload_job(job):
    """a model FILE loaded, the loaded template edited (update_var / a kept in-place run), and the same path loaded AGAIN
    (template caches as they are, or cleared): the second load is the model the file describes, as it is in a fresh process"""
    from pyrates import CircuitTemplate
    from .. import yamlio
    spec = job['spec']
    out = dict(violations=[], inconclusive=[], obligations=[], history=[], src='')
    tally = decide.Tally()
    wd = tv.scratch_dir()
    old = os.getcwd()
    os.chdir(wd)
    try:
        with warnings.catch_warnings():
            warnings.simplefilter('ignore')
            d = tv.scratch_dir()
            with open(os.path.join(d, 'model.yaml'), 'w') as f:
                f.write(yamlio.spec_to_yaml_text(spec))
            path = f"{d}/model/top"
            try:
                a = CircuitTemplate.from_yaml(path)
                out['history'].append('a = CircuitTemplate.from_yaml(P)')
                for act in job['acts']:
                    if act == 'update_var':
                        a.update_var(node_vars={first_state(spec): 6.5})
                        out['history'].append(f"a.update_var(node_vars={{{first_state(spec)!r}: 6.5}})")
                    elif act == 'update_edge':
                        e0 = spec.edges[0]
                        a.update_var(edge_vars=[(e0.src, e0.tgt, {'weight': 6.75})])
                        out['history'].append(f"a.update_var(edge_vars=[({e0.src!r}, {e0.tgt!r}, {{'weight': 6.75}})])")
                    elif act == 'compile':
                        a.get_run_func('vf', step_size=0.25, vectorize=job['vectorize'], verbose=False,
                                       float_precision='float64', in_place=False, file_name='pyrates_run')
                        out['history'].append('a.get_run_func(in_place=False)')
                    elif act == 'clear_frontend':
                        clear_frontend_caches()
                        out['history'].append('clear_frontend_caches()')
            except Exception as e:   # noqa
                out['history'].append(f"history step raised {type(e).__name__}: {str(e)[:80]}")
            out['history'].append('target = CircuitTemplate.from_yaml(P)')
            try:
                ct = CircuitTemplate.from_yaml(path)
                c = tv.compile_template(ct, vectorize=job['vectorize'], in_place=False)
            except Exception as e:   # noqa
                out['violations'].append(dict(kind='compile-raises', what=f"after the history the file cannot be loaded and "
                                              f"compiled: {type(e).__name__}: {str(e)[:300]}"))
                out['tally'] = tally.as_dict()
                return out
        out['src'] = c.src
        res = tvspec.validate(spec, c, tally, vectorized=job['vectorize'])
        for v_ in res['violations']:
            v_['what'] = f"second load of the file after {out['history'][1:-1]}: {v_.get('what')}"
        out['violations'] += res['violations']
        out['inconclusive'] += res['inconclusive']
        out['obligations'] += res['obligations']
    finally:
        os.chdir(old)
        shutil.rmtree(wd, ignore_errors=True)
    out['tally'] = tally.as_dict()
    return out


def _opcache_job(job):
    from pyverif.chh import c13_cache as H
    bad = []
    n = 0
    for n1, n2, e1, e2, v1, v2 in itertools.product(range(3), range(3), range(3), range(3), range(2), range(2)):
        n += 1
        try:
            ok = H.h_op_cache(n1, n2, e1, e2, v1, v2)
        except Exception as e:   # noqa
            ok = False
        if not ok:
            bad.append(f"templates ({H.NAMES[n1]!r}, {H.EQS[e1]!r}, k={H.VARS[v1]['k']}) then ({H.NAMES[n2]!r}, "
                       f"{H.EQS[e2]!r}, k={H.VARS[v2]['k']}): the second application does not yield its own "
                       f"equations/values (or equal templates do not share one IR instance)")
    return bad, n


def histories(tier, seed):
    rnd = random.Random(seed)
    H = []
    acts = ['compile', 'compile_with_input', 'compile_keep', 'compile_inplace', 'compile_inplace_noclear', 'compile_decorated', 'run', 'run_noclear', 'run_inplace', 'jac',
            'clear', 'clear_frontend', 'update_var', 'yaml']
    # hand-picked short histories named in the property
    for dec in 'ABCD':
        for act in ('compile', 'compile_keep', 'run', 'run_noclear', 'jac'):
            for v in (True, False):
                H.append([(dec, act, v)])
    H.append([('B', 'compile_keep', True), ('C', 'compile_keep', True)])
    for dec in 'AC':
        for v in (True, False):
            H.append([(dec, 'compile_with_input', v)])
    H.append([('A', 'run_noclear', True), ('A', 'run_noclear', True)])
    H.append([('A', 'compile', True), ('A', 'clear', True), ('B', 'compile', True)])
    H.append([('B', 'run_inplace', True), ('A', 'clear_frontend', True)])
    for dec in 'ABCDE':
        for v in (True, False):
            H.append([(dec, 'compile_decorated', v)])
            H.append([(dec, 'compile_inplace', v)])
    H.append([('E', 'compile_decorated', True), ('E', 'compile_decorated', True)])
    for v in (True, False):
        H.append([('A', 'compile_inplace_edge_values', v)])
        H.append([('C', 'compile_inplace_edge_values', v), ('A', 'compile_inplace_edge_values', v)])
    for v in (True, False):
        H.append([('A', 'compile_inplace_noclear', v)])
    H.append([('A', 'compile_inplace', True), ('A', 'compile_inplace', False)])
    H.append([('A', 'compile_inplace', False), ('A', 'compile_inplace', True)])
    n = 16 if tier == 'quick' else 400
    for _ in range(n):
        L = rnd.randint(2, 3 if tier == 'quick' else 4)
        H.append([(rnd.choice('ABCDE'), rnd.choice(acts), rnd.random() < 0.6) for _ in range(L)])
    return H


def run(tier='quick', seed=0, only=None, verbose=False):
    rep = Report('C13', tier, seed, 'translation_validation', functions_encoded=FUNCS + [
        'OperatorTemplate.cache / apply, ir.node cache_func + node_cache/op_cache/node_labels, template_cache, '
        'in_edge_indices, input_labels, _compiled_module_cache, sys.modules[file name], _sympify_cache (concrete, through '
        'API histories)', 'OperatorTemplate.apply (CrossHair, symbolic names/equations)'],
        bounds=dict(history_length='1 (all single steps over 4 decoy models) and 2-3 (quick) / 2-4 (thorough) random steps',
                    alphabet=STEP_KINDS, models='A target; B same operator name, other equations; C same structure and '
                    'names, other values/edges; D unrelated; E same emitted text as A, other values', targets='A and C, vectorize on/off'),
        stubs=['numpy library model'],
        assumptions=['reals for floats', 'histories are bounded enumeration/sampling in one process; the solver decides '
                     'function identity per history', 'a history step that raises is recorded and skipped (loud failures '
                     'of the decoy steps are not the subject)'])
    jobs = []
    for hi, h in enumerate(histories(tier, seed)):
        for tgt in ('A', 'C') if tier == 'thorough' else ('A',):
            for vec in ((True, False) if hi % 2 == 0 or tier == 'thorough' else (True,)):
                jobs.append(dict(key=f"h{hi}:{'>'.join(f'{m}.{a}.{int(v)}' for m, a, v in h)}|target={tgt}|vec={vec}",
                                 history=h, target=tgt, vectorize=vec, spec=model(tgt, 40 * 'ABCDE'.index(tgt))))
                # the same template object again, when the history only translated it (in place + clear, or copies)
                if any(m == tgt for m, a, _ in h) and all(a in ('compile', 'compile_keep', 'compile_inplace', 'compile_inplace_edge_values',
                                                                 'compile_inplace_noclear', 'compile_decorated', 'jac', 'yaml', 'update_var',
                                                                 'clear_frontend', 'run', 'run_noclear')
                                                          for m, a, _ in h if m == tgt):
                    # a translation KEPT on the template (clear=False) carries its state under the names of that layout:
                    # re-translating with the other vectorize setting fails loudly (KeyError) and is not claimed
                    if any(m == tgt and a == 'compile_inplace_noclear' and bool(v_) != bool(vec) for m, a, v_ in h):
                        continue
                    jobs.append(dict(jobs[-1], key=jobs[-1]['key'] + '|reuse', reuse=True))
    if only:
        jobs = [j for j in jobs if only in j['key']]
    for job, outc in runner.run_jobs(job_fn, jobs, timeout=600):
        if not outc['ok']:
            rep.harness_error(f"{job['key']}: {outc['error']} {outc.get('tb', '')[-400:]}")
            continue
        r = outc['result']
        rep.add_stats(outc['stats'])
        rep.add_tally(r['tally'])
        rep.program(job['key'], sample=dict(key=job['key'], history=r['history'], obligations=r['obligations'][:4])
                    if rep.programs % 23 == 0 else None, nontrivial=bool(r['obligations']))
        for v in r['violations']:
            rec = dict(property='C13', key=job['key'], history=r['history'], emitted_source=r['src'],
                       spec=job['spec'].describe(), spec_blob=tvspec.spec_blob(job['spec']), **v)
            rec['what'] = f"{job['key']}: {v.get('what')}"
            rep.violation(rec, v.get('finding') or findings.attribute('C13', job, rec))
        for i in r['inconclusive']:
            rep.inconcl(dict(key=job['key'], **{k: str(x)[:200] for k, x in i.items()}))
    sj = [dict(key=f"shared-hierarchy:{decoy}:shared-nodes={sh}|vec={vec}", decoy=decoy, shared=sh, vectorize=vec,
               spec=None)
          for decoy in ('two-keys', 'one-key-compiled', 'copy') for sh in (True, False) for vec in (True, False)]
    if tier == 'quick':
        sj = [j for i, j in enumerate(sj) if i % 2 == (i // 4) % 2]
    if only:
        sj = [j for j in sj if only in j['key']]
    from . import c07 as _c07
    for job, outc in runner.run_jobs(shared_hierarchy_job, sj, timeout=600):
        if not outc['ok']:
            rep.harness_error(f"{job['key']}: {outc['error']} {outc.get('tb', '')[-400:]}")
            continue
        r = outc['result']
        rep.add_stats(outc['stats'])
        rep.add_tally(r['tally'])
        rep.program(job['key'], nontrivial=bool(r['obligations']))
        spec3 = r.get('exp_spec') or _c07.base_spec(job['shared'], 2, same_sub=True)[0]
        for v in r['violations']:
            rec = dict(property='C13', key=job['key'], history=r['history'], emitted_source=r['src'],
                       spec=spec3.describe(), spec_blob=tvspec.spec_blob(spec3), **v)
            rec['what'] = f"{job['key']}: {v.get('what')}"
            rep.violation(rec, v.get('finding') or findings.attribute('C13', dict(job, spec=spec3), rec))
        for i in r['inconclusive']:
            rep.inconcl(dict(key=job['key'], **{k: str(x)[:200] for k, x in i.items()}))
    yj = []
    for key, spec in families.fam_equal_values()[:1] + families.fam_hierarchy()[1:2] + families.fam_mixed_nodes(seed, n=2)[:1]:
        for acts in (('update_var',), ('update_edge',), ('update_var', 'compile'), ('compile',), ('update_var', 'clear_frontend')):
            for vec in ((True, False) if tier == 'thorough' else (False,)):
                yj.append(dict(key=f"yaml-reload:{key}:{'+'.join(acts)}|vec={vec}", spec=spec, acts=acts, vectorize=vec))
    if only:
        yj = [j for j in yj if only in j['key']]
    for job, outc in runner.run_jobs(yaml_reload_job, yj, timeout=600):
        if not outc['ok']:
            rep.harness_error(f"{job['key']}: {outc['error']} {outc.get('tb', '')[-400:]}")
            continue
        r = outc['result']
        rep.add_stats(outc['stats'])
        rep.add_tally(r['tally'])
        rep.program(job['key'], nontrivial=bool(r['obligations']))
        for v in r['violations']:
            rec = dict(property='C13', key=job['key'], history=r['history'], emitted_source=r['src'],
                       spec=job['spec'].describe(), spec_blob=tvspec.spec_blob(job['spec']), **v)
            rec['what'] = f"{job['key']}: {v.get('what')}"
            rep.violation(rec, v.get('finding') or findings.attribute('C13', job, rec))
        for i in r['inconclusive']:
            rep.inconcl(dict(key=job['key'], **{k: str(x)[:200] for k, x in i.items()}))
    if not only or 'opcache' in only:
        # OperatorTemplate.apply over a finite pool of (name, equation, variables) pairs, both orders: exhaustive
        # enumeration in a fresh process (CrossHair cannot decide it: sys.intern realises symbolic strings and the
        # patched hash() trips over OperatorIR.__hash__ -- see DESIGN.md)
        for job, outc in runner.run_jobs(_opcache_job, [dict(key='opcache-pool')], timeout=300):
            if not outc['ok']:
                rep.harness_error(f"opcache: {outc['error']}")
                continue
            bad, n = outc['result']
            rep.program('opcache-pool', sample=dict(pairs=n, failing=bad[:3]))
            rep.section('opcache', pairs=n, failing=len(bad))
            rep.extra['discharged_other'] = rep.extra.get('discharged_other', 0) + n - len(bad)
            for b in bad[:5]:
                rep.violation(dict(property='C13', kind='operator-cache', what=f"OperatorTemplate.apply: {b}"))
    return rep.finish(rule='program = (history of API calls over decoy models, target model, vectorize); obligations: the '
                           'target compiled after the history equals its own reference per state variable; state-map '
                           'names are declared names; functions returned earlier still equal their model and still '
                           'return what they returned')
