"""./check --replay <path>: re-run the counterexample stored in a replay file against the real code of the current
tree and print what the real function returns next to what the reference semantics says."""
import json
import os
import sys
import warnings

import numpy as np


def main(path):
    r = json.load(open(path))
    print(f"property {r.get('property')}  key {r.get('key')}")
    print(f"what: {r.get('what')}")
    if 'spec_blob' in r and r.get('kind') in ('vector-field', 'state-layout', 'emitted-function-raises', 'compile-raises',
                                              'arg-name'):
        from . import tv, tvspec, decide
        from .spec import build_python
        spec = tvspec.spec_from_blob(r['spec_blob'])
        job = r.get('job') or {}
        vec = str(job.get('vectorize', 'True')) == 'True'
        backend = job.get('backend') or 'default'
        if backend == 'fortran':
            from . import f2pystub
            f2pystub.install()
        warnings.simplefilter('ignore')
        try:
            c = tv.compile_template(build_python(spec), backend=backend, vectorize=vec)
        except tv.CompileError as e:
            print('REPLAY: the real pipeline raises:', e)
            return 1
        T = decide.Tally()
        res = tvspec.validate(spec, c, T, vectorized=vec)
        for v in res['violations']:
            print('REPLAY: reproduced:', v.get('what'))
            for k in ('env', 'gen_value', 'ref_value', 'real_value'):
                if k in v:
                    print(f"   {k}: {v[k]}")
        if not res['violations']:
            print('REPLAY: not reproduced on the current tree (plain re-validation of the stored spec; checks that use '
                  'plugins/histories replay through `./check <id> --only <key>`)')
        return 1 if res['violations'] else 0
    print(f"REPLAY: re-run the originating check restricted to this case:  ./check {r.get('property')} --only "
          f"'{str(r.get('key', '')).split('|')[0]}'")
    for k in ('env', 'gen_value', 'ref_value', 'real_value', 'history', 'ops', 'call'):
        if k in r:
            print(f"   {k}: {r[k]}")
    return 0
