"""Attribution of a violation to a known finding (known_findings.json).  Attribution is by a predicate over the
failing program plus the failing obligation -- never by property id alone -- so a different violation of the same
property is still reported."""
from .report import load_known

_MATCHERS = {}


def matcher(fid):
    def deco(f):
        _MATCHERS[fid] = f
        return f
    return deco


def attribute(prop, job, rec):
    for k in load_known():
        if k['property'] != prop and prop not in k.get('also_under', []):
            continue
        m = _MATCHERS.get(k.get('matcher', k['id']))
        if m is None:
            continue
        try:
            if m(job, rec, k):
                return k['id']
        except Exception:   # noqa
            continue
    return None


# ---------------------------------------------------------------------------------------------
# defect models for translation-validation findings: a violation is attributed to a known finding only if the
# emitted function is PROVED equal (for all inputs) to the known-wrong function described by the finding.
# ---------------------------------------------------------------------------------------------
import itertools
import re


def _edge_groups(spec):
    groups = {}
    for i, e in enumerate(spec.edges):
        sn = e.src.rsplit('/', 2)[0]
        groups.setdefault((sn, e.tgt), []).append(i)
    return [g for g in groups.values() if len(g) > 1]


def _undriven_inputs(spec):
    driven = set()
    for e in spec.edges:
        driven.add(tuple(e.tgt.rsplit('/', 2)))
    out = set()
    for n, ns in spec.nodes.items():
        outs = {spec.ops[o].output for o in ns.ops}
        for o in ns.ops:
            for v, (kind, _) in spec.ops[o].vars.items():
                if kind == 'input' and (n, o, v) not in driven and v not in outs:
                    out.add((n, o, v))
    return out


def tv_defect_candidates(prop, spec, vectorized):
    """yield (finding ids, Ref options)"""
    open_ids = {k['id'] for k in load_known()}
    groups = _edge_groups(spec) if 'same-source-node-edges' in open_ids else []
    masks = [((), {})]
    if groups:
        # per group: the surviving edge i delivers its own source, possibly with the weight of another edge j of the
        # group (the code merges sources and weights of one source node independently)
        masks = []
        per_group = [[(i, j) for i in g for j in g] for g in groups]
        for choice in itertools.islice(itertools.product(*per_group), 64):
            keep = {i for i, _ in choice}
            masks.append((tuple(i for g in groups for i in g if i not in keep), {i: j for i, j in choice if i != j}))
    zd_opts = [()]
    und = _undriven_inputs(spec)
    if vectorized and und and 'undriven-default-dropped' in open_ids:
        # the defect hits all unconnected copies of one (operator, input variable) at a time
        groups_ov = sorted({(o, v) for (_, o, v) in und})
        for r in range(1, len(groups_ov) + 1):
            for sub in itertools.combinations(groups_ov, r):
                zd_opts.append(tuple(sorted(x for x in und if (x[1], x[2]) in sub)))
                if len(zd_opts) > 16:
                    break
    # in-node consumers of a variable that also feeds delayed edges read the delayed copy
    ind_opts = [{}]
    if 'innode-consumer-reads-delayed' in open_ids:
        per_var = {}
        for i, e in enumerate(spec.edges):
            if e.delay is None and e.spread is None:
                continue
            sn, so, sv = e.src.rsplit('/', 2)
            consumed = any(o2 != so and sv in spec.ops[o2].vars and spec.ops[o2].vars[sv][0] == 'input'
                           for o2 in spec.nodes[sn].ops)
            if consumed and spec.ops[so].output == sv:
                per_var.setdefault((sn, so, sv), []).append(i)
        if per_var:
            keys = sorted(per_var)
            for choice in itertools.islice(itertools.product(*[per_var[k] for k in keys]), 16):
                ind_opts.append(dict(zip(keys, choice)))
    for m, wf in masks:
        for zd in zd_opts:
            for ind in ind_opts:
                ids = []
                if m:
                    ids.append('same-source-node-edges')
                if zd:
                    ids.append('undriven-default-dropped')
                if ind:
                    ids.append('innode-consumer-reads-delayed')
                if ids:
                    yield ids, dict(edge_mask=m, zero_default=zd, weight_from=wf, innode_delayed=ind)


_GEN_SUFFIX = re.compile(r'^(.+?)(_in\d+)$')      # the <id>_v<k> half is repaired: no longer attributed


def generated_like_names(spec):
    """declared identifiers that coincide with a name the compiler would generate for ANOTHER declared identifier
    (<id>_in<k>), or with the generated edge variable `weight` / `weight_*`"""
    names = set()
    for o in spec.ops.values():
        names |= set(o.vars)
    out = []
    for n in sorted(names):
        m = _GEN_SUFFIX.match(n)
        if (m and m.group(1) in names) or n == 'weight' or n.startswith('weight_'):
            out.append(n)
    return out


@matcher('generated-name-collision')
def _m_names(job, rec, k):
    return bool(generated_like_names(job['spec']))


def _single_target_multi_source(spec):
    """some source population (node type, source variable) reaches exactly ONE unit of a target (node type, operator,
    input variable), either through >= 2 edges (dot with a (1, k) matrix) or next to another source population"""
    def ntype(n):
        return tuple(spec.nodes[n].ops)
    groups = {}
    for e in spec.edges:
        sn, so, sv = e.src.rsplit('/', 2)
        tn, to, tv_ = e.tgt.rsplit('/', 2)
        d = groups.setdefault((ntype(tn), to, tv_), {}).setdefault((ntype(sn), so, sv), dict(targets=set(), n=0))
        d['targets'].add(tn)
        d['n'] += 1
    for g, by_src in groups.items():
        for pop in by_src.values():
            if len(pop['targets']) == 1 and (pop['n'] >= 2 or len(by_src) >= 2):
                return True
    return False


@matcher('scalar-index-vector-rhs')
def _m_scalar_index(job, rec, k):
    w = rec.get('what', '')
    # NumPy / Torch wording and the JAX wording (.at[0-d index].set(length-1 vector)) of the same shape error
    loud = ('setting an array element with a sequence' in w or 'Cannot broadcast to shape with fewer dimensions' in w
            or 'shape mismatch' in w)
    return (rec.get('kind') == 'emitted-function-raises' and loud and job.get('vectorize')
            and _single_target_multi_source(job['spec']))


@matcher('parallel-edges-attr-keyerror')
def _m_par_keyerror(job, rec, k):
    if rec.get('kind') != 'compile-raises' or 'KeyError' not in rec.get('what', ''):
        return False
    spec = job['spec']
    groups = {}
    for e in spec.edges:
        attrs = tuple(sorted(a for a in ('weight', 'delay', 'spread') if getattr(e, a) is not None))
        groups.setdefault((e.src, e.tgt, e.template), set()).add(attrs)
    return any(len(a) > 1 for a in groups.values())


def _innode_consumed_delayed_sources(spec):
    out = []
    for i, e in enumerate(spec.edges):
        if e.delay is None and e.spread is None:
            continue
        sn, so, sv = e.src.rsplit('/', 2)
        if spec.ops[so].output == sv and any(o2 != so and sv in spec.ops[o2].vars and spec.ops[o2].vars[sv][0] == 'input'
                                            for o2 in spec.nodes[sn].ops):
            out.append((sn, so, sv))
    return out


@matcher('innode-consumer-reads-delayed')
def _m_innode(job, rec, k):
    """loud variant: with vectorize=True the delayed copy has one entry per delayed edge, not one per node, so the
    in-node operator fails on a shape mismatch"""
    if not job.get('vectorize') or not _innode_consumed_delayed_sources(job['spec']):
        return False
    w = rec.get('what', '')
    return (rec.get('kind') in ('compile-raises', 'emitted-function-raises') and
            ('could not be broadcast together' in w or 'out of bounds' in w or 'invalid index' in w))


@matcher('edge-values-ignored-vectorized')
def _m_edge_values(job, rec, k):
    """apply(edge_values=...) is not honoured with vectorize=True: the failing variable must be the target of an edge
    named in edge_values"""
    ev = (job.get('compile_kw') or {}).get('edge_values') or {}
    if not ev or not job.get('vectorize') or rec.get('kind') != 'vector-field':
        return False
    targets = {t.rsplit('/', 2)[0] for (_, t) in ev}
    var = rec.get('var', '')
    return var.rsplit('/', 2)[0] in targets


@matcher('coupling-edge-constant-keyerror')
def _m_cpl_const(job, rec, k):
    spec = job.get('spec')
    if rec.get('kind') != 'compile-raises' or 'KeyError' not in rec.get('what', '') or spec is None:
        return False
    consts = {v for t in spec.edge_tpls.values() for o in t.ops for v, (kd, _) in spec.ops[o].vars.items() if kd == 'const'}
    return any(f"'{c}'" in rec['what'] for c in consts) and 'population' in job.get('key', '')


@matcher('population-n1-matrix-delay')
def _m_pop_n1(job, rec, k):
    """a population of size 1 takes part (as source or target) in a Connectivity with a delay or a coupling edge"""
    spec = job.get('spec')
    if spec is None or 'population' not in job.get('key', '') or rec.get('kind') != 'emitted-function-raises':
        return False
    sizes = {}
    for n in spec.nodes:
        p = n.rsplit('_', 1)[0]
        sizes[p] = sizes.get(p, 0) + 1
    for e in spec.edges:
        if e.delay is not None or e.spread is not None or e.template:
            for end in (e.src, e.tgt):
                if sizes.get(end.rsplit('/', 2)[0].rsplit('_', 1)[0]) == 1:
                    return True
    return False


@matcher('scalar-source-shared-kernel')
def _m_scalar_shared_kernel(job, rec, k):
    """vectorize=True, a node that is the only one of its type feeds >= 2 edges with the same (delay, spread) kernel"""
    spec = job.get('spec')
    if spec is None or rec.get('kind') != 'emitted-function-raises' or 'invalid index to scalar' not in rec.get('what', ''):
        return False
    if not (job.get('vectorize', True)):
        return False
    types = {}
    for n, ns in spec.nodes.items():
        types.setdefault(tuple(ns.ops), []).append(n)
    groups = {}
    for e in spec.edges:
        if e.spread is None:
            continue
        sn = e.src.rsplit('/', 2)[0]
        groups.setdefault((e.src, e.delay, e.spread), []).append(e)
    for (src, d, s), es in groups.items():
        sn = src.rsplit('/', 2)[0]
        if len(es) >= 2 and len(types[tuple(spec.nodes[sn].ops)]) == 1:
            return True
    return False


@matcher('backprop-scalar-concatenate')
def _m_backprop(job, rec, k):
    kw = job.get('compile_kw') or {}
    if isinstance(kw, str):
        return False
    w = rec.get('what', '').lower()
    # NumPy / JAX / Torch wordings of "a 0-d value inside concatenate([...], 0)"
    return (kw.get('inplace_vectorfield') is False and rec.get('kind') == 'emitted-function-raises'
            and ('zero-dimensional' in w or 'number of dimensions' in w or 'numbers of dimensions' in w))


def _mixed_spread_plain_groups(spec):
    """source variables of structurally identical node groups whose outgoing edges mix spread and plain delays"""
    types = {}
    for n, ns in spec.nodes.items():
        types.setdefault(tuple(ns.ops), []).append(n)
    group_of = {n: t for t, ns in types.items() for n in ns}
    kinds = {}
    for e in spec.edges:
        sn, so, sv = e.src.rsplit('/', 2)
        k = kinds.setdefault((group_of[sn], so, sv), set())
        if e.spread is not None and e.spread != 0:
            k.add('spread')
        elif e.delay is not None and e.delay != 0:
            k.add('plain')
    return [g for g, k in kinds.items() if {'spread', 'plain'} <= k]


@matcher('mixed-spread-and-plain-delay-vectorized')
def _m_mixed_delay(job, rec, k):
    spec = job.get('spec')
    if spec is None or not job.get('vectorize', True) or not _mixed_spread_plain_groups(spec):
        return False
    if rec.get('kind') == 'compile-raises':
        return "KeyError: 'spread'" in rec.get('what', '')
    if rec.get('kind') == 'unsupported-not-refused':
        return True
    if rec.get('kind') != 'vector-field':
        return False
    # the failing variable must be the target of an edge that leaves such a mixed group
    groups = _mixed_spread_plain_groups(spec)
    tn = rec.get('var', '').rsplit('/', 2)[0]
    for e in spec.edges:
        sn, so, sv = e.src.rsplit('/', 2)
        if e.tgt.rsplit('/', 2)[0] == tn and any(so == g[1] and sv == g[2] and tuple(spec.nodes[sn].ops) == g[0] for g in groups):
            return True
    return False


def _pernode_past_delays(spec):
    """(op, delay constant) pairs of past() terms whose delay constant differs between structurally identical nodes"""
    from . import expr as X_
    out = []
    for oname, o in spec.ops.items():
        consts = set()

        def walk(e):
            if isinstance(e, tuple):
                if e and e[0] == 'past' and isinstance(e[2], tuple) and e[2][0] == 'v':
                    consts.add(e[2][1])
                for a in e[1:]:
                    if isinstance(a, (tuple, list)):
                        for b in (a if isinstance(a, list) else [a]):
                            walk(b)
        for _, _, ex in o.eqs:
            walk(ex)
        for c in consts:
            vals = {}
            for n, ns in spec.nodes.items():
                if oname in ns.ops:
                    vals.setdefault(tuple(ns.ops), []).append((n, ns.overrides.get((oname, c), o.vars[c][1])))
            for grp in vals.values():
                if len({v for _, v in grp}) > 1:
                    out.append((oname, c, grp))
    return out


@matcher('vectorized-past-per-node-delay')
def _m_pernode_delay(job, rec, k):
    spec = job.get('spec')
    if spec is None or not job.get('vectorize') or rec.get('kind') != 'vector-field':
        return False
    node = rec.get('var', '').rsplit('/', 2)[0]
    for oname, c, grp in _pernode_past_delays(spec):
        first_val = grp[0][1]
        # every node of the group whose delay differs from the FIRST node's delay computes with the first node's delay
        if any(n == node and v != first_val for n, v in grp):
            return True
    return False


@matcher('heun-advances-ring-buffers-twice')
def _m_heun_ring(job, rec, k):
    """run-level obligation of C09: only the Heun kernel, only the buffer-advance obligation"""
    return rec.get('kind') == 'ring-buffer-run' and job.get('solver') == 'heun' and rec.get('solver') == 'heun'


@matcher('yaml-same-name-operator-templates')
def _m_yaml_same_name(job, rec, k):
    """only the C15 programs that build one OperatorTemplate object per node under one name, only the round trip, and only
    the symptoms of the renamed operator (KeyError on a declared path / a state-map entry <op>_num<k>)"""
    if job.get('same_name') != 'roundtrip':
        return False
    what = str(rec.get('what', ''))
    return ('KeyError' in what and rec.get('kind') == 'compile-raises') or bool(re.search(r"_num\d+/", what))


@matcher('jacobian-slotwise-buffer-entry')
def _m_jac_slot_buffer(job, rec, k):
    """only programs with parallel delayed connections between one pair of variables (their source is read through a
    buffer that is filled slot by slot), only history-matrix entries, and only entries that the emitted Jacobian function
    itself declares as `could not differentiate ... entry left as 0`"""
    spec = job.get('spec')
    if spec is None or rec.get('kind') != 'jacobian-entry':
        return False
    pairs = {}
    for e in spec.edges:
        if e.delay:
            pairs[(e.src, e.tgt)] = pairs.get((e.src, e.tgt), 0) + 1
    if not any(n > 1 for n in pairs.values()):
        return False
    m = re.search(r"J_hist\[delay [^\]]*\]\[(\d+),(\d+)\]", str(rec.get('what', '')))
    if not m:
        return False
    src = str(rec.get('jacobian_source', ''))
    return bool(re.search(rf"could not differentiate J_hist_\w+\[{m.group(1)},\s*{m.group(2)}\] analytically", src))
