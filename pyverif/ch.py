"""CrossHair driver: one OS process per condition, verdict mapping, counterexample replay.

A harness is a module-level function `h_<name>(args...) -> bool` in pyverif/chh/*.py with a PEP-316 docstring whose
postcondition is `post: _` (the function returns True iff the property holds on its inputs).  Its reachability twin
`twin_<name>` has the same preconditions and returns False when the end of the body is reached; CrossHair must
refute the twin, otherwise the harness is vacuous.
"""
import ast
import importlib
import os
import re
import subprocess
import sys
import time
from concurrent.futures import ThreadPoolExecutor

HERE = os.path.dirname(os.path.abspath(__file__))


def harnesses(module_file):
    src = open(module_file).read()
    tree = ast.parse(src)
    out = []
    for node in tree.body:
        if isinstance(node, ast.FunctionDef) and (node.name.startswith('h_') or node.name.startswith('twin_')):
            out.append((node.name, node.lineno + 1))
    return out


def _run_one(module_file, name, line, timeout, per_path=None):
    cmd = [sys.executable, '-m', 'crosshair', 'check', '--report_all', '--per_condition_timeout', str(timeout)]
    if per_path:
        cmd += ['--per_path_timeout', str(per_path)]
    cmd.append(f"{module_file}:{line}")
    t = time.time()
    try:
        p = subprocess.run(cmd, capture_output=True, text=True, timeout=timeout * 2 + 120, env=os.environ.copy())
        out = p.stdout + p.stderr
    except subprocess.TimeoutExpired as e:
        out = 'TIMEOUT ' + str(e.stdout or '')
    dt = time.time() - t
    verdict, cex = 'inconclusive', None
    if 'Confirmed over all paths' in out:
        verdict = 'confirmed'
    m = re.search(r"error: false when calling (.+?)(?: \(which returns|$)", out, re.M)
    m2 = re.search(r"error: (\w+(?:Error|Exception)[^\n]*) when calling (.+?)$", out, re.M)
    if m:
        verdict, cex = 'refuted', m.group(1).strip()
    elif m2:
        verdict, cex = 'raises', m2.group(2).strip()
    elif 'Not confirmed' in out or 'Unable to meet precondition' in out or 'TIMEOUT' in out:
        verdict = 'inconclusive'
    elif 'CrossHairInternal' in out or 'Traceback' in out:
        verdict = 'inconclusive'
    return dict(name=name, verdict=verdict, cex=cex, wall=round(dt, 2), raw=out[-800:])


def replay(module_name, fname, call_text):
    """evaluate the counterexample call concretely in a fresh interpreter: returns 'False' | 'True' | 'raises ...'"""
    code = (f"import {module_name} as M\n"
            f"from {module_name} import *\n"
            f"try:\n    r = {call_text}\n    print('RESULT', bool(r))\n"
            f"except Exception as e:\n    print('RESULT raises', type(e).__name__, e)\n")
    p = subprocess.run([sys.executable, '-c', code], capture_output=True, text=True, timeout=300, env=os.environ.copy())
    m = re.search(r"RESULT (.+)", p.stdout)
    return m.group(1).strip() if m else f"replay failed: {p.stderr[-300:]}"


def run_module(module_name, timeout=30, only=None, workers=12, suffix=None):
    """returns list of dict(name, verdict, cex, replayed, twin_ok)"""
    mod = importlib.import_module(module_name)
    f = mod.__file__
    hs = harnesses(f)
    if only:
        hs = [h for h in hs if only in h[0]]
    if suffix:
        hs = [h for h in hs if h[0].endswith(suffix)]
    with ThreadPoolExecutor(workers) as ex:
        futs = [ex.submit(_run_one, f, n, l, getattr(mod, 'TIMEOUTS', {}).get(n, timeout)) for n, l in hs]
        res = [x.result() for x in futs]
    by = {r['name']: r for r in res}
    out = []
    for r in res:
        if not r['name'].startswith('h_'):
            continue
        tw = by.get('twin_' + r['name'][2:])
        r['twin_ok'] = (tw is not None and tw['verdict'] == 'refuted')
        r['twin_verdict'] = tw['verdict'] if tw else 'missing'
        if r['verdict'] in ('refuted', 'raises'):
            r['replayed'] = replay(module_name, r['name'], r['cex'])
        out.append(r)
    return out


def consume(rep, module_name, timeout=60, suffix=None, only=None, known_matcher=None):
    """run a harness module and fold the verdicts into a Report"""
    for r in run_module(module_name, timeout=timeout, suffix=suffix, only=only):
        rep.program('crosshair:' + r['name'], sample=dict(harness=r['name'], verdict=r['verdict'], wall=r['wall']))
        rep.section('crosshair', harnesses=1, **{r['verdict']: 1})
        if not r['twin_ok']:
            rep.harness_error(f"reachability twin of {r['name']} not refuted ({r['twin_verdict']})")
        if r['verdict'] == 'confirmed':
            rep.add_tally(dict(obligations=1, unsat=1))
        elif r['verdict'] in ('refuted', 'raises'):
            rep.add_tally(dict(obligations=1, sat=1))
            if r.get('replayed', '').startswith(('False', 'raises')):
                rep.add_tally(dict(sat_confirmed=1))
                rec = dict(property=rep.prop, kind='crosshair', harness=r['name'], call=r['cex'],
                           what=f"{r['cex']} is false on the real function (replayed: {r['replayed']})")
                fid = known_matcher(r) if known_matcher else None
                rep.violation(rec, fid)
            else:
                rep.add_tally(dict(sat_spurious=1))
                rep.inconcl(dict(key=r['name'], what=f"counterexample {r['cex']} did not reproduce: {r.get('replayed')}"))
        else:
            rep.add_tally(dict(obligations=1, unknown=1))
            rep.inconcl(dict(key=r['name'], what='CrossHair: not confirmed within the time budget', raw=r['raw'][-200:]))
