"""CrossHair harness: OperatorTemplate.apply for two templates drawn (by symbolic index) from pools of names, equations
and variable sets.  Whatever the first template was, applying the second must yield the second's own equations, and
two templates with equal name/equations/variables must share one IR instance (vectorization relies on it).
(sys.intern in OperatorTemplate.__init__ realises free symbolic strings, so free strings can only refute, not
confirm; the pools keep the space finite and the exploration exhaustive.)"""
from pyrates.frontend.template.operator import OperatorTemplate

NAMES = ['o', 'o1', 'p']
EQS = ["x' = -x", "x' = -k*x", "x' = k - x"]
VARS = [{'x': 'output(0.5)', 'k': 2.0}, {'x': 'output(0.5)', 'k': 3.0}]
TIMEOUTS = {'h_op_cache': 200}


def _c(i: int) -> int:
    # concretise a small symbolic index by branching (keeps everything downstream concrete)
    if i == 0:
        return 0
    if i == 1:
        return 1
    return 2


def h_op_cache(n1: int, n2: int, e1: int, e2: int, v1: int, v2: int) -> bool:
    """
    pre: 0 <= n1 < 3 and 0 <= n2 < 3 and 0 <= e1 < 3 and 0 <= e2 < 3 and 0 <= v1 < 2 and 0 <= v2 < 2
    post: _
    """
    n1, n2, e1, e2, v1, v2 = _c(n1), _c(n2), _c(e1), _c(e2), _c(v1), _c(v2)
    OperatorTemplate.cache.clear()
    o1 = OperatorTemplate(name=NAMES[n1], equations=[EQS[e1]], variables=dict(VARS[v1]))
    o2 = OperatorTemplate(name=NAMES[n2], equations=[EQS[e2]], variables=dict(VARS[v2]))
    i1, vals1 = o1.apply()
    i2, vals2 = o2.apply()
    same = (n1 == n2 and e1 == e2 and v1 == v2)
    return list(i2.equations) == [EQS[e2]] and vals2['k'] == VARS[v2]['k'] and list(i1.equations) == [EQS[e1]] \
        and ((i1 is i2) == same)


def twin_op_cache(n1: int, n2: int, e1: int, e2: int, v1: int, v2: int) -> bool:
    """
    pre: 0 <= n1 < 3 and 0 <= n2 < 3 and 0 <= e1 < 3 and 0 <= e2 < 3 and 0 <= v1 < 2 and 0 <= v2 < 2
    post: _
    """
    n1, n2, e1, e2, v1, v2 = _c(n1), _c(n2), _c(e1), _c(e2), _c(v1), _c(v2)
    OperatorTemplate.cache.clear()
    o1 = OperatorTemplate(name=NAMES[n1], equations=[EQS[e1]], variables=dict(VARS[v1]))
    o2 = OperatorTemplate(name=NAMES[n2], equations=[EQS[e2]], variables=dict(VARS[v2]))
    o1.apply()
    o2.apply()
    return False
