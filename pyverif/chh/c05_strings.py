"""CrossHair harnesses for the pure string/label helpers behind the equation language."""
from pyrates.backend.parser import split_equation, ExpressionParser
from pyrates.backend.computegraph import ComputeGraph

POOL = ['x', 'x_v1', 'x_v2', 'x_v1_v1', 'y', 'y_v1']
TIMEOUTS = {'h_unique_labels': 150, 'h_split_equation': 90, 'h_lhs_forms': 90}


def h_unique_labels(i: int, j: int, k: int, l: int) -> bool:
    """
    pre: 0 <= i < 6 and 0 <= j < 6 and 0 <= k < 6 and 0 <= l < 6
    post: _
    """
    cg = object.__new__(ComputeGraph)
    cg._node_names = {}
    out = [cg._generate_unique_label(POOL[i]), cg._generate_unique_label(POOL[j]),
           cg._generate_unique_label(POOL[k]), cg._generate_unique_label(POOL[l])]
    return len(set(out)) == 4 and out[0] == POOL[i]


def twin_unique_labels(i: int, j: int, k: int, l: int) -> bool:
    """
    pre: 0 <= i < 6 and 0 <= j < 6 and 0 <= k < 6 and 0 <= l < 6
    post: _
    """
    cg = object.__new__(ComputeGraph)
    cg._node_names = {}
    cg._generate_unique_label(POOL[i])
    return False


def _ok_lhs(s: str) -> bool:
    return len(s) >= 1 and all(c in "xd'*" for c in s) and s[-1] != "*"


def _ok_rhs(s: str) -> bool:
    return len(s) >= 1 and all(c in "ab+(" for c in s)


def h_split_equation(lhs: str, rhs: str, sep: int) -> bool:
    """
    pre: len(lhs) <= 3 and len(rhs) <= 3 and 0 <= sep < 4
    pre: _ok_lhs(lhs) and _ok_rhs(rhs)
    post: _
    """
    s = [" = ", "=", " =", "= "][sep]
    l, r, a = split_equation(lhs + s + rhs)
    return a == "=" and l.strip() == lhs and r.strip() == rhs


def twin_split_equation(lhs: str, rhs: str, sep: int) -> bool:
    """
    pre: len(lhs) <= 3 and len(rhs) <= 3 and 0 <= sep < 4
    pre: _ok_lhs(lhs) and _ok_rhs(rhs)
    post: _
    """
    split_equation(lhs + [" = ", "=", " =", "= "][sep] + rhs)
    return False


def h_lhs_forms(name: str, form: int) -> bool:
    """
    pre: 1 <= len(name) <= 3 and 0 <= form < 3
    pre: all(c in "abdtxv_" for c in name) and name[0] != "_"
    post: _
    """
    p = object.__new__(ExpressionParser)
    p.vars = {}
    eq = [f"d/dt * {name} = a", f"{name}' = a", f"d/dt*{name}=a"][form]
    lhs, rhs, diff_eq, assign, key = p._preprocess_expr_str(eq)
    return diff_eq and key == name and lhs == name and assign == "=" and rhs.strip() == "a"


def twin_lhs_forms(name: str, form: int) -> bool:
    """
    pre: 1 <= len(name) <= 3 and 0 <= form < 3
    pre: all(c in "abdtxv_" for c in name) and name[0] != "_"
    post: _
    """
    p = object.__new__(ExpressionParser)
    p.vars = {}
    p._preprocess_expr_str([f"d/dt * {name} = a", f"{name}' = a", f"d/dt*{name}=a"][form])
    return False
