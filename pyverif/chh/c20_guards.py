"""CrossHair harnesses for the guards that make unsupported requests fail loudly (symbolic solver / name / backend
strings)."""
from pyrates.backend.base.base_backend import BaseBackend
from pyrates.backend.torch.torch_backend import TorchBackend
from pyrates.backend.jax.jax_backend import JaxBackend
from pyrates.backend.fortran.fortran_backend import FortranBackend
from pyrates.frontend.template.operator import check_vname
from pyrates.frontend.template.circuit import CircuitTemplate
from pyrates.ir.circuit import PyRatesException

TIMEOUTS = {}
KERNEL_OF = {'euler': '_solve_euler', 'heun': '_solve_heun', 'scipy': '_solve_scipy', 'diffrax': '_solve_diffrax'}


def _dispatch(cls, solver: str) -> bool:
    """_solve(solver) either raises PyRatesException or calls exactly the kernel named after the solver"""
    be = object.__new__(cls)
    called = []
    if cls is JaxBackend:
        # jnp.asarray(y0) is not part of the guard; JAX internals are not deterministic under CrossHair
        import types
        import pyrates.backend.jax.jax_backend as jb
        jb.jnp = types.SimpleNamespace(asarray=lambda x, *a, **k: x)

    def mk(name):
        def k(*a, **kw):
            called.append(name)
            return 'REC'
        return k
    for name in ('_solve_euler', '_solve_heun', '_solve_scipy', '_solve_scipy_dde', '_solve_diffrax'):
        setattr(be, name, mk(name))
    import numpy as np
    try:
        be._solve(solver=solver, func=None, args=(np.zeros(1),), T=1.0, dt=0.1, dts=0.1, y0=np.zeros(1), t0=0,
                  times=np.zeros(1))
    except PyRatesException:
        return solver not in cls.SUPPORTED_SOLVERS and called == []
    return solver in cls.SUPPORTED_SOLVERS and called == [KERNEL_OF.get(solver)]


def h_dispatch_base(solver: str) -> bool:
    """
    pre: len(solver) <= 7
    post: _
    """
    return _dispatch(BaseBackend, solver)


def twin_dispatch_base(solver: str) -> bool:
    """
    pre: len(solver) <= 7
    post: _
    """
    _dispatch(BaseBackend, solver)
    return False


def h_dispatch_torch(solver: str) -> bool:
    """
    pre: len(solver) <= 7
    post: _
    """
    return _dispatch(TorchBackend, solver)


def twin_dispatch_torch(solver: str) -> bool:
    """
    pre: len(solver) <= 7
    post: _
    """
    _dispatch(TorchBackend, solver)
    return False


def h_dispatch_jax(solver: str) -> bool:
    """
    pre: len(solver) <= 7
    post: _
    """
    return _dispatch(JaxBackend, solver)


def twin_dispatch_jax(solver: str) -> bool:
    """
    pre: len(solver) <= 7
    post: _
    """
    _dispatch(JaxBackend, solver)
    return False


def h_dispatch_fortran(solver: str) -> bool:
    """
    pre: len(solver) <= 7
    post: _
    """
    return _dispatch(FortranBackend, solver)


def twin_dispatch_fortran(solver: str) -> bool:
    """
    pre: len(solver) <= 7
    post: _
    """
    _dispatch(FortranBackend, solver)
    return False


RESERVED = ['y', 'dy', 'source_idx', 'target_idx', 'pi', 'I', 'E', 'S', 'Q', 'O', 'N', 'oo', 'zoo', 'nan', 'beta',
            'gamma', 'Beta', 'Gamma', 'exp', 'log', 'sin', 'cos', 'tan', 'cot', 'sec', 'csc', 'sinh', 'cosh', 'tanh',
            'sqrt', 'abs']
PARTS = ['_buffer', '_delays', '_maxdelay', '_idx', '_hist']


def h_check_vname_reserved(i: int, vt: int) -> bool:
    """
    pre: 0 <= i < 31 and 0 <= vt < 4
    post: _
    """
    try:
        check_vname(RESERVED[i], ['constant', 'input', 'output', 'state_var'][vt])
    except PyRatesException:
        return True
    return False


def twin_check_vname_reserved(i: int, vt: int) -> bool:
    """
    pre: 0 <= i < 31 and 0 <= vt < 4
    post: _
    """
    try:
        check_vname(RESERVED[i], ['constant', 'input', 'output', 'state_var'][vt])
    except PyRatesException:
        pass
    return False


def h_check_vname_parts(pre_: str, post_: str, i: int) -> bool:
    """
    pre: len(pre_) <= 2 and len(post_) <= 2 and 0 <= i < 5
    post: _
    """
    try:
        check_vname(pre_ + PARTS[i] + post_, 'constant')
    except PyRatesException:
        return True
    return False


def twin_check_vname_parts(pre_: str, post_: str, i: int) -> bool:
    """
    pre: len(pre_) <= 2 and len(post_) <= 2 and 0 <= i < 5
    post: _
    """
    try:
        check_vname(pre_ + PARTS[i] + post_, 'constant')
    except PyRatesException:
        pass
    return False


def h_check_vname_free(v: str) -> bool:
    """
    pre: 1 <= len(v) <= 3 and all(c in "abkmuvwx" for c in v)
    post: _
    """
    # names over letters that cannot form a reserved name are accepted and keep their variable type
    return check_vname(v, 'constant') == 'constant'


def twin_check_vname_free(v: str) -> bool:
    """
    pre: 1 <= len(v) <= 3 and all(c in "abkmuvwx" for c in v)
    post: _
    """
    check_vname(v, 'constant')
    return False


def h_backend_args(backend: str, vectorize: bool) -> bool:
    """
    pre: len(backend) <= 7
    post: _
    """
    try:
        CircuitTemplate._validate_backend_args(backend, vectorize)
    except PyRatesException:
        return (vectorize and backend == 'fortran') or backend == 'julia'
    return not (vectorize and backend == 'fortran') and backend != 'julia'


def twin_backend_args(backend: str, vectorize: bool) -> bool:
    """
    pre: len(backend) <= 7
    post: _
    """
    try:
        CircuitTemplate._validate_backend_args(backend, vectorize)
    except PyRatesException:
        pass
    return False
