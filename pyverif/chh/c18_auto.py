"""CrossHair harness for the auto-07p slot arithmetic.  (The Fortran line wrapping is not decidable by CrossHair within
minutes - symbolic-length strings; it lies on the analysed path of every exported program instead: a wrap that splits a
token changes what f90smt parses.)"""
from pyrates.backend.fortran.fortran_backend import FortranBackend

TIMEOUTS = {}


def h_slots(n: int) -> bool:
    """
    pre: 0 <= n <= 40
    post: _
    """
    be = object.__new__(FortranBackend)
    out = be._auto_param_indices(tuple('p' for _ in range(n)), FortranBackend._AUTO_BLOCKED_PAR_RANGE)
    return (len(out) == n and all(i >= 1 for i in out) and all(not (10 <= i <= 14) for i in out)
            and all(out[i] < out[i + 1] for i in range(n - 1)))


def twin_slots(n: int) -> bool:
    """
    pre: 0 <= n <= 40
    post: _
    """
    be = object.__new__(FortranBackend)
    be._auto_param_indices(tuple('p' for _ in range(n)), FortranBackend._AUTO_BLOCKED_PAR_RANGE)
    return False
