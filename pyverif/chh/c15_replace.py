"""CrossHair harnesses for the whole-identifier replacement used by template inheritance (equation edits)."""
from pyrates.backend.parser import replace

IDENT = "abcdefghijklmnopqrstuvwxyzABCDEFGHIJKLMNOPQRSTUVWXYZ0123456789_"
TIMEOUTS = {'h_replace_digit_q': 60, 'h_replace_digit_t': 400, 'h_replace_ops3_t': 400, 'h_replace_ops3_q': 60, 'h_replace_ops2_t': 400, 'h_replace_ops2_q': 60, 'h_replace_ops1_t': 400, 'h_replace_ops1_q': 60, 'h_replace_q': 60, 'h_replace_t': 400}


def _isid(c: str) -> bool:
    return c in IDENT


def ref_replace(eq: str, term: str, repl: str) -> str:
    """replace exactly the whole-identifier occurrences of term (left to right, non-overlapping)"""
    out = ""
    i = 0
    n = len(eq)
    m = len(term)
    while i < n:
        if eq[i:i + m] == term and (i == 0 or not _isid(eq[i - 1])) and (i + m == n or not _isid(eq[i + m])):
            out += repl
            i += m
        else:
            out += eq[i]
            i += 1
    return out


def h_replace_q(eq: str, term: str) -> bool:
    """
    pre: 1 <= len(term) <= 2 and len(eq) <= 3
    pre: all(c in "rx_" for c in term)
    pre: all(c in "rx_ +=" for c in eq)
    post: _
    """
    return replace(eq, term, "Q") == ref_replace(eq, term, "Q")


def twin_replace_q(eq: str, term: str) -> bool:
    """
    pre: 1 <= len(term) <= 2 and len(eq) <= 3
    pre: all(c in "rx_" for c in term)
    pre: all(c in "rx_ +=" for c in eq)
    post: _
    """
    replace(eq, term, "Q")
    return False


def h_replace_t(eq: str, term: str) -> bool:
    """
    pre: 1 <= len(term) <= 2 and len(eq) <= 5
    pre: all(c in "rx_" for c in term)
    pre: all(c in "rx_ +=" for c in eq)
    post: _
    """
    return replace(eq, term, "Q") == ref_replace(eq, term, "Q")


def twin_replace_t(eq: str, term: str) -> bool:
    """
    pre: 1 <= len(term) <= 2 and len(eq) <= 5
    pre: all(c in "rx_" for c in term)
    pre: all(c in "rx_ +=" for c in eq)
    post: _
    """
    replace(eq, term, "Q")
    return False

def h_replace_ops1_q(eq: str, term: str) -> bool:
    """
    pre: 1 <= len(term) <= 2 and len(eq) <= 3
    pre: all(c in "r" for c in term)
    pre: all(c in "r^*/-(" for c in eq)
    post: _
    """
    return replace(eq, term, "Q") == ref_replace(eq, term, "Q")


def twin_replace_ops1_q(eq: str, term: str) -> bool:
    """
    pre: 1 <= len(term) <= 2 and len(eq) <= 3
    pre: all(c in "r" for c in term)
    pre: all(c in "r^*/-(" for c in eq)
    post: _
    """
    replace(eq, term, "Q")
    return False


def h_replace_ops1_t(eq: str, term: str) -> bool:
    """
    pre: 1 <= len(term) <= 2 and len(eq) <= 4
    pre: all(c in "r" for c in term)
    pre: all(c in "r^*/-(" for c in eq)
    post: _
    """
    return replace(eq, term, "Q") == ref_replace(eq, term, "Q")


def twin_replace_ops1_t(eq: str, term: str) -> bool:
    """
    pre: 1 <= len(term) <= 2 and len(eq) <= 4
    pre: all(c in "r" for c in term)
    pre: all(c in "r^*/-(" for c in eq)
    post: _
    """
    replace(eq, term, "Q")
    return False


def h_replace_ops2_q(eq: str, term: str) -> bool:
    """
    pre: 1 <= len(term) <= 2 and len(eq) <= 3
    pre: all(c in "r" for c in term)
    pre: all(c in "r).,%@" for c in eq)
    post: _
    """
    return replace(eq, term, "Q") == ref_replace(eq, term, "Q")


def twin_replace_ops2_q(eq: str, term: str) -> bool:
    """
    pre: 1 <= len(term) <= 2 and len(eq) <= 3
    pre: all(c in "r" for c in term)
    pre: all(c in "r).,%@" for c in eq)
    post: _
    """
    replace(eq, term, "Q")
    return False


def h_replace_ops2_t(eq: str, term: str) -> bool:
    """
    pre: 1 <= len(term) <= 2 and len(eq) <= 4
    pre: all(c in "r" for c in term)
    pre: all(c in "r).,%@" for c in eq)
    post: _
    """
    return replace(eq, term, "Q") == ref_replace(eq, term, "Q")


def twin_replace_ops2_t(eq: str, term: str) -> bool:
    """
    pre: 1 <= len(term) <= 2 and len(eq) <= 4
    pre: all(c in "r" for c in term)
    pre: all(c in "r).,%@" for c in eq)
    post: _
    """
    replace(eq, term, "Q")
    return False


def h_replace_ops3_q(eq: str, term: str) -> bool:
    """
    pre: 1 <= len(term) <= 2 and len(eq) <= 3
    pre: all(c in "r" for c in term)
    pre: all(c in "r[]:<>!" for c in eq)
    post: _
    """
    return replace(eq, term, "Q") == ref_replace(eq, term, "Q")


def twin_replace_ops3_q(eq: str, term: str) -> bool:
    """
    pre: 1 <= len(term) <= 2 and len(eq) <= 3
    pre: all(c in "r" for c in term)
    pre: all(c in "r[]:<>!" for c in eq)
    post: _
    """
    replace(eq, term, "Q")
    return False


def h_replace_ops3_t(eq: str, term: str) -> bool:
    """
    pre: 1 <= len(term) <= 2 and len(eq) <= 4
    pre: all(c in "r" for c in term)
    pre: all(c in "r[]:<>!" for c in eq)
    post: _
    """
    return replace(eq, term, "Q") == ref_replace(eq, term, "Q")


def twin_replace_ops3_t(eq: str, term: str) -> bool:
    """
    pre: 1 <= len(term) <= 2 and len(eq) <= 4
    pre: all(c in "r" for c in term)
    pre: all(c in "r[]:<>!" for c in eq)
    post: _
    """
    replace(eq, term, "Q")
    return False


def h_replace_digit_q(eq: str, term: str) -> bool:
    """
    pre: 1 <= len(term) <= 2 and len(eq) <= 3
    pre: all(c in "re" for c in term)
    pre: all(c in "re12+-" for c in eq)
    post: _
    """
    return replace(eq, term, "Q") == ref_replace(eq, term, "Q")


def twin_replace_digit_q(eq: str, term: str) -> bool:
    """
    pre: 1 <= len(term) <= 2 and len(eq) <= 3
    pre: all(c in "re" for c in term)
    pre: all(c in "re12+-" for c in eq)
    post: _
    """
    replace(eq, term, "Q")
    return False


def h_replace_digit_t(eq: str, term: str) -> bool:
    """
    pre: 1 <= len(term) <= 2 and len(eq) <= 4
    pre: all(c in "re" for c in term)
    pre: all(c in "re12+-" for c in eq)
    post: _
    """
    return replace(eq, term, "Q") == ref_replace(eq, term, "Q")


def twin_replace_digit_t(eq: str, term: str) -> bool:
    """
    pre: 1 <= len(term) <= 2 and len(eq) <= 4
    pre: all(c in "re" for c in term)
    pre: all(c in "re12+-" for c in eq)
    post: _
    """
    replace(eq, term, "Q")
    return False
