"""Generic worker + result handling for translation-validation jobs over ModelSpecs."""
from . import tv, tvspec, decide, runner, findings
from .spec import build_python


def tv_job(job):
    spec = job['spec']
    builder = job.get('builder', 'python')
    if builder == 'python':
        ct = build_python(spec)
    elif builder == 'roundtrip':          # python classes -> to_yaml -> from_yaml
        from . import yamlio
        ct = yamlio.roundtrip_template(build_python(spec))
    elif builder in ('yaml_rewritten', 'roundtrip_rewritten'):   # the file held another model before (same path)
        from . import yamlio
        ct = yamlio.build_rewritten(spec, 'yaml' if builder == 'yaml_rewritten' else 'roundtrip')
    else:                                 # 'yaml' | 'yaml_roundtrip'
        from . import yamlio
        ct = yamlio.build_yaml(spec, roundtrip=(builder == 'yaml_roundtrip'))
    pre = job.get('pre')
    if pre:
        try:
            ct = pre(ct, spec) or ct
        except tv.CompileError as e:
            return dict(status='compile-raises', error=str(e))
    kw = dict(job.get('compile_kw', {}))
    if job.get('backend') == 'fortran':
        from . import f2pystub
        f2pystub.install()
    try:
        c = tv.compile_template(ct, backend=job.get('backend', 'default'), vectorize=job['vectorize'], **kw)
    except tv.CompileError as e:
        return dict(status='compile-raises', error=str(e))
    T = decide.Tally()
    res = tvspec.validate(spec, c, T, vectorized=job['vectorize'], cvc5=job.get('cvc5', False),
                          delayed_factory=job.get('delayed_factory'))
    return dict(status='ok', res=res, tally=T.as_dict(), src=c.src, keys=list(c.keys), smap={k: str(v) for k, v in c.smap.items()})


def run_tv_jobs(rep, jobs, verbose=False, fn=tv_job, timeout=300):
    for job, out in runner.run_jobs(fn, jobs, timeout=timeout):
        key = job['key']
        spec = job['spec']
        if not out['ok']:
            if 'spec reuses a fingerprint' in str(out['error']) or 'spec reuses an initial value fingerprint' in str(out['error']):
                # a randomly generated program in which two different weight sums / initial values carry the same
                # fingerprint cannot be decided by value binding: inconclusive, not a verdict (the message is about the
                # generated SPEC, never about what PyRates emitted)
                rep.inconcl(dict(key=key, what=f"generated program not decidable by fingerprints: {str(out['error'])[:200]}"))
                continue
            rep.harness_error(f"{key}: {out['error']} {out.get('tb', '')[-400:]}")
            continue
        rep.add_stats(out['stats'])
        r = out['result']
        if r.get('exp_spec') is not None:
            spec = r['exp_spec']
            job = dict(job, spec=spec, compile_kw=r.get('compile_kw', job.get('compile_kw')))
        base = dict(property=rep.prop, key=key, spec=spec.describe(), spec_blob=tvspec.spec_blob(spec),
                    job={k: str(v) for k, v in job.items() if k in ('vectorize', 'backend', 'builder', 'compile_kw')},
                    history=r.get('history'))
        if r['status'] == 'compile-raises':
            rec = dict(base, kind='compile-raises', what=f"{key}: well-formed model is rejected: {r['error'][:300]}")
            rep.program(key, nontrivial=False)
            rep.violation(rec, findings.attribute(rep.prop, job, rec))
            continue
        rep.add_tally(r['tally'])
        res = r['res']
        rep.program(key, sample=dict(key=key, spec=spec.describe(), emitted_source=r['src'][:1500],
                                     obligations=res['obligations'][:8]) if rep.programs % 37 == 0 else None,
                    nontrivial=bool(res['obligations']))
        for v in res['violations']:
            rec = dict(base, emitted_source=r['src'], arg_names=r['keys'], state_map=r['smap'], **v)
            rec['what'] = f"{key}: {v.get('what')}"
            rep.violation(rec, v.get('finding') or findings.attribute(rep.prop, job, rec))
        for i in res['inconclusive']:
            rep.inconcl(dict(key=key, **{k: str(v)[:300] for k, v in i.items()}))
            if verbose:
                print('  inconclusive', key, i)
        if verbose:
            print(key, [o['verdict'] for o in res['obligations']], res['diagnostics'][:2])
