"""Reference semantics of a ModelSpec (the specification side of translation validation).

No PyRates import.  Works over any numeric domain (Sym for the solver, float for replay).
Semantics (from the property statements):
  * state variable  x with  x' = e     : derivative is e
  * algebraic variable v = e           : every use of v denotes e
  * constant                           : its declared / overridden value (a symbol per (node, op, var))
  * input variable u                   : sum of all incoming connections -- outputs named u of other operators
                                         of the same node, plus weight*source over ALL edges targeting it
                                         (parallel edges included) -- or its declared default when none
  * edge with an edge template         : the source feeds the (single) input of the edge operators, the edge's
                                         output times weight enters the target sum
"""
from . import expr as X
from .spec import ModelSpec


class CycleError(Exception):
    pass


class Ref:
    def __init__(self, spec: ModelSpec, dom, P, Y, W, EP=None, delayed=None, ext_inputs=None, edge_mask=(),
                 zero_default=(), weight_from=None, past=None, innode_delayed=None, edge_state=None):
        """P(node, op, var) -> value of a constant / input default
        Y(node, op, var) -> current value of a state variable
        W(i) -> weight of edge i (None weight => 1)
        EP(i, op, var) -> constant on the template instance of edge i
        delayed(i, edge, fn) -> value delivered by delayed edge i; fn() gives the undelayed source value
        ext_inputs: {(node, op, var): [values]} extrinsic inputs added to the incoming sum"""
        self.spec, self.dom, self.P, self.Y, self.W, self.EP = spec, dom, P, Y, W, EP
        self.delayed = delayed
        self.ext = ext_inputs or {}
        # defect models (used only to attribute a violation to a known finding, never as the oracle)
        self.edge_mask = set(edge_mask)
        self.zero_default = set(zero_default)
        self.weight_from = dict(weight_from or {})
        self.innode_delayed = dict(innode_delayed or {})   # (node, op, var) -> index of a delayed edge leaving it
        self.past = past        # past(node, op) -> fn(var, delay_value): value of a delayed state variable
        self.edge_state = edge_state    # edge_state(i, op, var) -> current value of a state variable of edge i's operator
        self._stack = set()
        self._memo = {}

    # ---------------------------------------------------------------------------------
    def value(self, node, op, var):
        key = (node, op, var)
        if key in self._memo:
            return self._memo[key]
        if key in self._stack:
            raise CycleError(key)
        self._stack.add(key)
        try:
            r = self._value(node, op, var)
        finally:
            self._stack.discard(key)
        self._memo[key] = r
        return r

    def _op_env(self, node, op):
        return lambda v: self.value(node, op, v)

    def _value(self, node, op, var):
        o = self.spec.ops[op]
        kind, default = o.vars[var]
        if kind == 'state':
            return self.Y(node, op, var)
        if kind == 'const':
            return self.P(node, op, var)
        if kind == 'alg':
            k, e = o.defined()[var]
            assert k == 'alg'
            return X.evaluate(e, self._op_env(node, op), self.dom, self._past(node, op))
        if kind == 'input':
            terms = []
            for o2name in self.spec.nodes[node].ops:
                if o2name == op:
                    continue
                o2 = self.spec.ops[o2name]
                if o2.output == var:
                    if (node, o2name, var) in self.innode_delayed and self.delayed is not None:
                        # defect model: the operator of the same node reads the delayed copy made for an edge
                        i = self.innode_delayed[(node, o2name, var)]
                        terms.append(self.delayed(i, self.spec.edges[i], lambda n=node, o=o2name, v=var: self.value(n, o, v)))
                    else:
                        terms.append(self.value(node, o2name, var))
            for i, e in enumerate(self.spec.edges):
                tn, to, tv = e.tgt.rsplit('/', 2)
                if (tn, to, tv) == (node, op, var) and i not in self.edge_mask:
                    terms.append(self.edge_value(i))
            for x in self.ext.get((node, op, var), []):
                terms.append(x)
            if not terms:
                if (node, op, var) in self.zero_default:
                    return self.dom.const(0)
                return self.P(node, op, var)
            s = terms[0]
            for t in terms[1:]:
                s = s + t
            return s
        raise ValueError(kind)

    def _past(self, node, op):
        return self.past(node, op) if self.past else None

    def edge_source(self, i):
        e = self.spec.edges[i]
        sn, so, sv = e.src.rsplit('/', 2)
        return self.value(sn, so, sv)

    def edge_value(self, i):
        e = self.spec.edges[i]

        def undelayed():
            src = self.edge_source(i)
            if e.template:
                src = self._edge_template_value(i, src)
            return src

        if (e.delay is not None or e.spread is not None) and self.delayed is not None:
            v = self.delayed(i, e, undelayed)
        else:
            v = undelayed()
        j = self.weight_from.get(i, i)
        if self.spec.edges[j].weight is None:
            return v
        return self.W(j) * v

    def _edge_env(self, i, src):
        """val(opname, var): value of a variable of the operator(s) carried by edge i; src = value of its source"""
        e = self.spec.edges[i]
        tpl = self.spec.edge_tpls[e.template]
        ops = [self.spec.ops[o] for o in tpl.ops]
        ref = self

        def val(opname, var):
            o = ref.spec.ops[opname]
            kind, default = o.vars[var]
            if kind == 'const':
                return ref.EP(i, opname, var)
            if kind == 'state':
                if ref.edge_state is None:
                    raise ValueError('edge operator with a state variable: no edge_state hook')
                return ref.edge_state(i, opname, var)
            if kind == 'alg':
                k, ex = o.defined()[var]
                return X.evaluate(ex, lambda v: val(opname, v), ref.dom)
            if kind == 'input':
                terms = [val(o2.name, var) for o2 in ops if o2.name != opname and o2.output == var]
                if not terms:
                    m = e.var_map.get(var, 'source') if e.var_map else 'source'
                    if m == 'source':
                        return src
                    pn, po, pv = m.rsplit('/', 2)
                    return ref.value(pn, po, pv)
                s = terms[0]
                for t in terms[1:]:
                    s = s + t
                return s
            raise ValueError(f"edge template variable kind {kind} unsupported in reference")
        return val, ops

    def edge_state_deriv(self, i, opname, var):
        """right-hand side of the differential equation of a state variable living on edge i"""
        val, ops = self._edge_env(i, self.edge_source(i))
        k, ex = self.spec.ops[opname].defined()[var]
        assert k == 'de'
        return X.evaluate(ex, lambda v: val(opname, v), self.dom)

    def _edge_template_value(self, i, src):
        val, ops = self._edge_env(i, src)
        last = ops[-1]
        # output of the edge = output of the operator no other edge operator consumes
        consumed = set()
        for o in ops:
            for v, (k, _) in o.vars.items():
                if k == 'input':
                    consumed.add(v)
        finals = [o for o in ops if o.output not in consumed]
        assert len(finals) == 1, finals
        return val(finals[0].name, finals[0].output)

    # ---------------------------------------------------------------------------------
    def deriv(self, node, op, var):
        o = self.spec.ops[op]
        k, e = o.defined()[var]
        assert k == 'de'
        return X.evaluate(e, self._op_env(node, op), self.dom, self._past(node, op))

    def state_vars(self):
        out = []
        for n, ns in self.spec.nodes.items():
            for oname in ns.ops:
                o = self.spec.ops[oname]
                for lhs, kind, e in o.eqs:
                    if kind == 'de':
                        out.append((n, oname, lhs))
        return out


class SymDom(X.Dom):
    """numeric domain over symx.Sym"""

    def const(self, fr):
        from . import symx
        return symx.Sym(symx.rv(fr))

    def call(self, f, args):
        from . import symx
        a = [symx.as_sym(x) for x in args]
        if f in ('exp', 'log', 'sin', 'cos', 'tan', 'tanh', 'sinh', 'cosh', 'arctan', 'arcsin', 'arccos', 'sqrt'):
            return getattr(a[0], f)()
        if f == 'sigmoid':
            return 1 / (1 + (-a[0]).exp())
        if f in ('absv', 'abs'):
            return abs(a[0])
        if f == 'sign':
            return a[0].sign()
        if f == 'maxi':
            return symx.smax(a[0], a[1])
        if f == 'mini':
            return symx.smin(a[0], a[1])
        if f == 'round':
            return a[0].rint()
        raise ValueError(f)
