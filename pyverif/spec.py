"""Model specifications (plain data) + builders that turn a spec into PyRates input.

The reference semantics (refsem.py) and the PyRates input are both derived from the same ModelSpec,
never from PyRates data structures.
"""
from dataclasses import dataclass, field
from fractions import Fraction
from typing import Dict, List, Optional, Tuple
import copy

from . import expr as X


@dataclass
class OpSpec:
    name: str
    # equations in declaration order: (lhs variable, 'de' | 'alg', Expr)
    eqs: List[Tuple[str, str, tuple]]
    # variables: name -> (kind, default) ; kind in {'state','alg','input','const'}
    vars: Dict[str, Tuple[str, Fraction]]
    output: Optional[str] = None
    # surface variation
    style: dict = field(default_factory=dict)
    de_notation: str = "prime"     # 'prime' -> x' = ..., 'ddt' -> d/dt * x = ...

    def eq_strings(self):
        out = []
        for lhs, kind, e in self.eqs:
            rhs = X.render(e, style=self.style)
            sp = ' ' if self.style.get('space', 1) else ''
            if kind == 'de':
                l = f"{lhs}'" if self.de_notation == 'prime' else f"d/dt * {lhs}"
            else:
                l = lhs
            out.append(f"{l}{sp}={sp}{rhs}")
        return out

    def var_defs(self, dict_form=False):
        d = {}
        for v, (kind, val) in self.vars.items():
            if kind == 'const':
                # (dict_form: the dictionary form of a variable declaration, which PyRates accepts next to numbers/strings)
                d[v] = dict(vtype='constant', value=float(val), dtype='float', shape=(1,)) if dict_form else float(val)
            elif kind == 'input':
                d[v] = f"input({float(val)})"
            elif kind in ('state', 'alg'):
                d[v] = f"output({float(val)})" if v == self.output else f"variable({float(val)})"
            else:
                raise ValueError(kind)
        return d

    def defined(self):
        return {lhs: (kind, e) for lhs, kind, e in self.eqs}


@dataclass
class NodeSpec:
    ops: List[str]                                   # operator names (order = declaration order)
    overrides: Dict[Tuple[str, str], Fraction] = field(default_factory=dict)   # (op, var) -> value
    template: Optional[str] = None                   # nodes with equal template share one NodeTemplate object


@dataclass
class EdgeSpec:
    src: str      # 'node/op/var'   (node may contain '/' for hierarchy)
    tgt: str
    weight: Optional[Fraction] = None    # None -> attribute omitted (means 1.0)
    delay: Optional[Fraction] = None
    spread: Optional[Fraction] = None
    template: Optional[str] = None       # name of an edge operator set (EdgeTemplate)
    edge_overrides: Dict[str, Fraction] = field(default_factory=dict)   # 'op/var' -> value on the edge template
    var_map: Dict[str, str] = field(default_factory=dict)   # edge-operator input -> 'source' | 'node/op/var' (post side)


@dataclass
class EdgeTplSpec:
    name: str
    ops: List[str]


@dataclass
class ModelSpec:
    name: str
    ops: Dict[str, OpSpec]
    nodes: Dict[str, NodeSpec]                       # flat: 'n0'; hierarchical: 'c0/n0'
    edges: List[EdgeSpec] = field(default_factory=list)
    edge_tpls: Dict[str, EdgeTplSpec] = field(default_factory=dict)
    note: str = ""

    # ---- helpers --------------------------------------------------------------------------
    def value_of(self, node, op, var):
        ns = self.nodes[node]
        if (op, var) in ns.overrides:
            return ns.overrides[(op, var)]
        return self.ops[op].vars[var][1]

    def depth(self):
        return max(n.count('/') for n in self.nodes)

    def describe(self):
        d = dict(name=self.name, note=self.note, ops={}, nodes={}, edges=[])
        for o in self.ops.values():
            d['ops'][o.name] = dict(equations=o.eq_strings(), variables={k: str(v) for k, v in o.var_defs().items()})
        for n, ns in self.nodes.items():
            d['nodes'][n] = dict(ops=ns.ops, overrides={f"{o}/{v}": str(x) for (o, v), x in ns.overrides.items()})
        for e in self.edges:
            d['edges'].append(dict(src=e.src, tgt=e.tgt, weight=str(e.weight), delay=str(e.delay),
                                   spread=str(e.spread), template=e.template))
        return d


# --------------------------------------------------------------------------------------------
# fingerprints
# --------------------------------------------------------------------------------------------
class FP:
    """hands out distinct dyadic rationals (exact in float32): (2k+35)/16"""

    def __init__(self, start=0):
        self.k = start

    def __call__(self):
        v = Fraction(2 * self.k + 35, 16)
        self.k += 1
        return v


# --------------------------------------------------------------------------------------------
# build through the Python classes
# --------------------------------------------------------------------------------------------
def build_python(spec: ModelSpec, share_ops=True, share_circuits=False, dict_form=False):
    """Returns a CircuitTemplate built with the PyRates Python API."""
    from pyrates import CircuitTemplate, NodeTemplate, OperatorTemplate, EdgeTemplate
    optpl = {}

    def get_op(name):
        if not share_ops or name not in optpl:
            o = spec.ops[name]
            t = OperatorTemplate(name=o.name, path=None, equations=o.eq_strings(), variables=o.var_defs(dict_form))
            if not share_ops:
                return t
            optpl[name] = t
        return optpl[name]

    node_tpls = {}
    nodes = {}
    for n, ns in spec.nodes.items():
        key = ns.template
        if key is not None and key in node_tpls:
            nodes[n] = node_tpls[key]
            continue
        ops = {}
        for oname in ns.ops:
            ov = {v: float(val) for (o, v), val in ns.overrides.items() if o == oname}
            ops[get_op(oname)] = ov
        nt = NodeTemplate(name=f"{key or n.replace('/', '_')}_tpl", path=None, operators=ops)
        nodes[n] = nt
        if key is not None:
            node_tpls[key] = nt

    etpls = {}
    for name, et in spec.edge_tpls.items():
        etpls[name] = EdgeTemplate(name=name, path=None, operators=[get_op(o) for o in et.ops])

    def edge_tuple(e: EdgeSpec, strip=0):
        attrs = {}
        if e.weight is not None:
            attrs['weight'] = float(e.weight)
        if e.delay is not None:
            attrs['delay'] = float(e.delay)
        if e.spread is not None:
            attrs['spread'] = float(e.spread)
        for k, v in e.edge_overrides.items():
            attrs[k] = float(v)
        if e.template and e.var_map:
            for inp, m in e.var_map.items():
                for oname in spec.edge_tpls[e.template].ops:
                    if inp in spec.ops[oname].vars:
                        attrs[f"{e.template}/{oname}/{inp}"] = m
        return (e.src, e.tgt, etpls[e.template] if e.template else None, attrs)

    _shared_circuits = {}
    depth = spec.depth()
    if depth == 0:
        return CircuitTemplate(spec.name, nodes=nodes, edges=[edge_tuple(e) for e in spec.edges])

    # hierarchy: group by first path component, recursively
    def build_level(prefix, names, lvl_name):
        # names: node paths relative to prefix
        heads = {}
        for n in names:
            h, _, rest = n.partition('/')
            heads.setdefault(h, []).append(rest)
        if all(r == [''] for r in heads.values()):
            nd = {h: nodes[(prefix + '/' + h) if prefix else h] for h in heads}
            inner = [e for e in spec.edges if _inside(e, prefix, leaf=True)]
            etups = [_strip(edge_tuple(e), prefix) for e in inner]
            if share_circuits:
                # structurally identical leaf circuits (same node templates, same relative edges) become ONE object
                sig = (tuple((h, id(t)) for h, t in nd.items()),
                       tuple((a, b, id(c), tuple(sorted((k, str(v)) for k, v in d.items()))) for a, b, c, d in etups))
                if sig in _shared_circuits:
                    return _shared_circuits[sig]
                _shared_circuits[sig] = CircuitTemplate(lvl_name, nodes=nd, edges=etups)
                return _shared_circuits[sig]
            return CircuitTemplate(lvl_name, nodes=nd, edges=etups)
        circuits = {}
        for h, rest in heads.items():
            p = (prefix + '/' + h) if prefix else h
            circuits[h] = build_level(p, rest, h)
        inner = [e for e in spec.edges if _inside(e, prefix, leaf=False)]
        etups = [_strip(edge_tuple(e), prefix) for e in inner]
        if share_circuits and prefix:
            # identical mid-level circuits (same sub-circuit objects, same relative edges) become ONE object as well
            sig = ('mid', tuple((h, id(t)) for h, t in circuits.items()),
                   tuple((a, b, id(c), tuple(sorted((k, str(v)) for k, v in d.items()))) for a, b, c, d in etups))
            if sig not in _shared_circuits:
                _shared_circuits[sig] = CircuitTemplate(lvl_name, circuits=circuits, edges=etups)
            return _shared_circuits[sig]
        return CircuitTemplate(lvl_name, circuits=circuits, edges=etups)

    def _node_of(path):
        return path.rsplit('/', 2)[0]

    def _inside(e, prefix, leaf):
        """edge belongs to the level `prefix` if prefix is the longest common circuit prefix of its endpoints"""
        a = _node_of(e.src).split('/')[:-1]
        b = _node_of(e.tgt).split('/')[:-1]
        common = []
        for x, y in zip(a, b):
            if x == y:
                common.append(x)
            else:
                break
        return '/'.join(common) == prefix

    def _strip(t, prefix):
        if not prefix:
            return t
        k = len(prefix) + 1
        # string-valued attributes other than 'source' are node-variable paths: relative to the level as well
        attrs = {a: (v[k:] if isinstance(v, str) and v != 'source' and v.startswith(prefix + '/') else v)
                 for a, v in t[3].items()}
        return (t[0][k:], t[1][k:], t[2], attrs)

    return build_level('', list(spec.nodes), spec.name)
