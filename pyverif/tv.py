"""Translation-validation plumbing: compile with the real PyRates, capture the emitted text, bind argument
slots to specification symbols by value fingerprint, execute the emitted text under symx."""
import io
import os
import shutil
import tempfile
import tokenize
import warnings
from dataclasses import dataclass, field
from fractions import Fraction
from typing import Any, Callable, Dict, List, Optional, Tuple

import numpy as np
import z3

from . import symx, libmodels
from .symx import Sym, SArr


@dataclass
class Compiled:
    func: Callable
    args: tuple
    keys: tuple
    smap: dict
    src: str
    fname: str
    backend: str
    workdir: str
    extra: dict = field(default_factory=dict)


class CompileError(Exception):
    def __init__(self, exc):
        super().__init__(f"{type(exc).__name__}: {exc}")
        self.exc = exc


def tv_to_np(a):
    return a.detach().cpu().numpy() if hasattr(a, 'detach') else a


def scratch_dir():
    base = os.environ.get('TMPDIR') or tempfile.gettempdir()
    os.makedirs(base, exist_ok=True)
    return tempfile.mkdtemp(prefix='pv_', dir=base)


def compile_template(ct, fname='vf', backend='default', vectorize=True, step_size=1e-3, kind='run', keep=False,
                     file_name='pyrates_run', **kw) -> Compiled:
    """Run the real pipeline in a private working directory."""
    wd = scratch_dir()
    old = os.getcwd()
    os.chdir(wd)
    try:
        kwargs = dict(step_size=step_size, backend=backend, vectorize=vectorize, verbose=False,
                      float_precision='float64', file_name=file_name)
        kwargs.update(kw)
        with warnings.catch_warnings():
            warnings.simplefilter('ignore')
            try:
                if kind == 'run':
                    func, args, keys, smap = ct.get_run_func(fname, **kwargs)
                else:
                    func, args, keys, smap = ct.get_jacobian_func(fname, **kwargs)
            except Exception as e:      # noqa
                raise CompileError(e)
        ext = '.f90' if backend == 'fortran' else '.py'
        path = os.path.join(wd, file_name + ext)
        src = open(path).read() if os.path.exists(path) else ''
        return Compiled(func, tuple(args), tuple(keys), dict(smap), src, fname, backend, wd)
    finally:
        os.chdir(old)
        if not keep:
            shutil.rmtree(wd, ignore_errors=True)


def capture_run(ct, fname_hint='vf', **run_kw):
    """Compiled for the function that CircuitTemplate.run hands to the integrator: the real run() is executed with
    BaseBackend._solve replaced by a stub that records (func, args, emitted source) and returns zeros."""
    import pyrates.backend.base.base_backend as bb
    cap = {}

    def stub(self, solver, func, args, T, dt, dts, y0, t0, times, **kw):
        steps = int(np.round(T / dts))
        ny = int(np.size(y0))
        names = func.__code__.co_varnames[:func.__code__.co_argcount]
        path = func.__code__.co_filename
        cap.update(func=func, args=(t0, np.array(y0, copy=True)) + tuple(args), keys=tuple(names),
                   src=open(path).read() if os.path.exists(path) else '', T=T, dt=dt, dts=dts)
        return np.zeros((steps, ny))
    orig = bb.BaseBackend._solve
    bb.BaseBackend._solve = stub
    wd = scratch_dir()
    old = os.getcwd()
    os.chdir(wd)
    try:
        kwargs = dict(verbose=False, float_precision='float64', in_place=False, clear=False)
        kwargs.update(run_kw)
        with warnings.catch_warnings():
            warnings.simplefilter('ignore')
            try:
                ct.run(**kwargs)
            except Exception as e:      # noqa
                raise CompileError(e)
        if 'func' not in cap:
            raise CompileError(RuntimeError('run() never reached the integrator'))
        c = Compiled(cap['func'], cap['args'], cap['keys'], {}, cap['src'], cap['func'].__name__, 'default', wd)
        ny = int(np.asarray(tv_to_np(c.args[1])).size)
        c.smap = {f"__pos{j}": j for j in range(ny)}
        return c
    finally:
        bb.BaseBackend._solve = orig
        os.chdir(old)
        shutil.rmtree(wd, ignore_errors=True)


# ---------------------------------------------------------------------------------------------
# fingerprint binding
# ---------------------------------------------------------------------------------------------
def frac_of(x) -> Fraction:
    return symx.rationalize(float(x))


class Binding:
    """Maps value fingerprints to symbols; records where each was found."""

    def __init__(self, table: Dict[Fraction, Sym]):
        self.table = table
        self.found: Dict[Fraction, List[Tuple[str, tuple]]] = {}
        self.slots: List[Tuple[str, tuple, str]] = []     # (arg key, index, symbol name)

    def lookup(self, x, where):
        fr = frac_of(x)
        s = self.table.get(fr)
        if s is not None:
            self.found.setdefault(fr, []).append(where)
        return s


def bind_args(c: Compiled, binding: Binding, y_sym: SArr, t_sym, hist=None, skip=(), overrides=None):
    """Symbolic argument tuple for the emitted function."""
    sargs = []
    shared = []
    for pos, (k, a) in enumerate(zip(c.keys, c.args)):
        if pos == 0:            # time / step counter (its frontend name varies: 't', '<input node>/.../t')
            sargs.append(t_sym)
            continue
        if pos == 1:
            sargs.append(y_sym)
            continue
        if overrides and pos in overrides:
            sargs.append(overrides[pos])
            continue
        if k == 'hist':
            sargs.append(hist)
            continue
        if k == 'dy':
            sargs.append(SArr(np.empty(np.shape(a), dtype=object)))
            continue
        if callable(a) and not isinstance(a, np.ndarray):
            sargs.append(hist)
            continue
        arr = np.asarray(a)
        if hasattr(a, 'detach'):
            arr = a.detach().cpu().numpy()
        arr = np.asarray(arr)
        if arr.dtype.kind in 'iub':
            sargs.append(arr.copy() if arr.ndim else int(arr))
            continue
        # two arguments that are ONE array object (or views of the same memory with the same layout) alias in the real
        # function: writes through one name are seen through the other.  They become one symbolic array as well.
        if isinstance(a, np.ndarray) and a.ndim:
            twin = next((sa for (a0, sa) in shared if a0.shape == a.shape and a0.strides == a.strides
                         and a0.dtype == a.dtype and a0.__array_interface__['data'][0] == a.__array_interface__['data'][0]),
                        None)
            if twin is not None:
                sargs.append(twin)
                continue
        o = np.empty(arr.shape, dtype=object)
        for ix in np.ndindex(*arr.shape):
            v = float(arr[ix])
            s = binding.lookup(v, (k, ix)) if k not in skip else None
            if s is None:
                o[ix] = symx.val(v)
            else:
                o[ix] = s
                binding.slots.append((k, ix, str(s.e)))
        sargs.append(SArr(o) if arr.ndim else o[()])
        if isinstance(a, np.ndarray) and a.ndim:
            shared.append((a, sargs[-1]))
    return sargs


def bind_literals(src: str, binding: Binding, table_name='__FP'):
    """Rewrite numeric literals of the emitted Python text that equal a fingerprint into symbol lookups
    (a compiler may inline a declared value as a literal instead of passing it as an argument)."""
    fp_list = []
    by_line = {}
    for tok in tokenize.generate_tokens(io.StringIO(src).readline):
        if tok.type != tokenize.NUMBER or tok.start[0] != tok.end[0]:
            continue
        if not ('.' in tok.string or 'e' in tok.string.lower()):
            continue
        try:
            v = float(tok.string)
        except ValueError:
            continue
        s = binding.lookup(v, ('<literal>', (tok.start[0],)))
        if s is None:
            continue
        by_line.setdefault(tok.start[0], []).append((tok.start[1], tok.end[1], len(fp_list)))
        fp_list.append(s)
    if not fp_list:
        return src, []
    lines = src.split('\n')
    for ln, spans in by_line.items():
        line = lines[ln - 1]
        for a, b, idx in sorted(spans, reverse=True):
            line = line[:a] + f"{table_name}[{idx}]" + line[b:]
        lines[ln - 1] = line
    return '\n'.join(lines), fp_list


def load_python(c: Compiled, binding: Optional[Binding] = None, extra_globals=None):
    src = c.src
    g = dict(extra_globals or {})
    if binding is not None:
        src2, fps = bind_literals(src, binding)
        if fps:
            g['__FP'] = fps
            src = src2
    f, ns = libmodels.load_source(src, c.fname, g)
    return f, ns


def call_real(c: Compiled, args):
    """call the real compiled function; the Fortran convention returns nothing and fills the dy argument"""
    r = c.func(*args)
    if r is None:
        r = args[2]
    return r


def run_symbolic(c: Compiled, binding: Binding, y_sym=None, t_sym=None, hist=None, skip=(), overrides=None):
    """Execute the emitted text on symbols (Python text under the library models, Fortran text through f90smt).
    Returns (output array, sargs)."""
    if c.backend == 'fortran':
        from . import f90smt
        ny = int(np.asarray(tv_to_np(c.args[1])).size)
        if y_sym is None:
            y_sym = symx.symarray('y', ny)
        if t_sym is None:
            t_sym = symx.real('t')
        it = f90smt.load(c.src)
        u = it.units.get(c.fname.lower())
        if u is not None and isinstance(t_sym, symx.Sym) and (u.decls.get(u.args[0]) or {}).get('type') == 'integer':
            # fixed-step compiles declare the step counter as INTEGER: evaluate at the returned initial counter
            t_sym = int(np.asarray(c.args[0]).reshape(-1)[0])
        sargs = bind_args(c, binding, y_sym, t_sym, hist=hist, skip=skip, overrides=overrides)
        it.call(c.fname, sargs)
        return sargs[2], sargs
    ny = int(np.asarray(tv_to_np(c.args[1])).size)
    if y_sym is None:
        y_sym = symx.symarray('y', ny)
    if t_sym is None:
        t_sym = symx.real('t')
    sargs = bind_args(c, binding, y_sym, t_sym, hist=hist, skip=skip, overrides=overrides)
    f, ns = load_python(c, binding)
    symx.STRICT_SETITEM = (c.backend != 'torch')
    try:
        out = f(*sargs)
    finally:
        symx.STRICT_SETITEM = True
    return out, sargs


def check_cells(out, what='output'):
    """every cell must be a Sym or a number (nested arrays = shape error masked by object dtype)"""
    for ix, cell in symx.cells(out):
        if cell is None:
            raise ValueError(f"{what}{list(ix)} was never written (uninitialised read of the result buffer)")
        if isinstance(cell, (np.ndarray, list, tuple)):
            raise ValueError(f"{what}{list(ix)} holds a nested sequence: shape error masked by object dtype")


def float_args(c: Compiled, env: Dict[str, float], binding: Binding, y_names: List[str], t_value=0.0, hist_fn=None):
    """Concrete float arguments for the real compiled function at the point env (symbol name -> float)."""
    slot = {}
    for k, ix, name in binding.slots:
        slot[(k, ix)] = name
    args = []
    shared = []
    for pos, (k, a) in enumerate(zip(c.keys, c.args)):
        if pos == 0:
            args.append(t_value)
            continue
        if pos == 1:
            yv = np.array([env.get(n, 0.25) for n in y_names], dtype=float)
            if hasattr(c.args[1], 'detach') and hasattr(c.args[1], 'clone'):
                import torch
                yv = torch.from_numpy(yv)
            args.append(yv)
            continue
        if callable(a) and not isinstance(a, np.ndarray):
            args.append(hist_fn if hist_fn is not None else a)
            continue
        is_torch = hasattr(a, 'detach') and hasattr(a, 'clone')
        if isinstance(a, np.ndarray) and a.ndim:
            # arguments that share their memory in the returned tuple share it in the replay as well
            twin = next((x for (a0, x) in shared if a0.shape == a.shape and a0.strides == a.strides and a0.dtype == a.dtype
                         and a0.__array_interface__['data'][0] == a.__array_interface__['data'][0]), None)
            if twin is not None:
                args.append(twin)
                continue
        arr = np.array(a.detach().cpu().numpy() if is_torch else a, copy=True)
        if isinstance(a, np.ndarray) and a.ndim:
            shared.append((a, arr))
        if arr.dtype.kind == 'f':
            for ix in np.ndindex(*arr.shape):
                n = slot.get((k, ix))
                if n is not None and n in env:
                    arr[ix] = env[n]
        if is_torch:
            import torch
            arr = torch.from_numpy(np.ascontiguousarray(arr))
        args.append(arr)
    return args
