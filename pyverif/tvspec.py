"""Translation validation of one ModelSpec against one compiled artefact."""
import base64
import hashlib
import json
import math
import os
import pickle
import traceback
from fractions import Fraction

import numpy as np
import z3

from . import symx, tv, decide, refsem
from .spec import ModelSpec
from .symx import Sym, SArr


class Symbols:
    """One symbol per distinct declared value (parameters sharing a value share the symbol)."""

    def __init__(self, spec: ModelSpec):
        self.spec = spec
        self.table = {}          # Fraction -> Sym
        self.names = {}          # Fraction -> name
        self.state_pos_fp = {}   # Fraction -> (node, op, var)   initial values of state variables
        self.P = {}
        self.Wsym = {}
        self.EPsym = {}
        for n, ns in spec.nodes.items():
            for oname in ns.ops:
                o = spec.ops[oname]
                for v, (kind, default) in o.vars.items():
                    val = spec.value_of(n, oname, v)
                    if kind == 'state':
                        if val in self.state_pos_fp:
                            raise ValueError(f'spec reuses an initial value fingerprint: {val}')
                        self.state_pos_fp[val] = (n, oname, v)
                    elif kind in ('const', 'input'):
                        self.P[(n, oname, v)] = self._sym(val, f"{n}/{oname}/{v}")
        for i, e in enumerate(spec.edges):
            if e.weight is not None:
                self.Wsym[i] = self._sym(e.weight, f"w{i}")
            if e.template:
                for oname in spec.edge_tpls[e.template].ops:
                    o = spec.ops[oname]
                    for v, (kind, default) in o.vars.items():
                        if kind == 'const':
                            val = e.edge_overrides.get(f"{oname}/{v}", default)
                            self.EPsym[(i, oname, v)] = self._sym(val, f"e{i}/{oname}/{v}")
        # parallel edges (same source variable, same target variable, no edge operator, same delay): the compiler may
        # fold their weights into ONE number - bind the sum of the weights to the sum of their symbols
        import itertools
        groups = {}
        for i, e in enumerate(spec.edges):
            if e.template is None:
                groups.setdefault((e.src, e.tgt, e.delay, e.spread), []).append(i)
        for idxs in groups.values():
            for r in range(2, min(len(idxs), 4) + 1):
                for sub in itertools.combinations(idxs, r):
                    # (an omitted weight attribute means 1)
                    tot = sum(Fraction(1 if spec.edges[i].weight is None else spec.edges[i].weight) for i in sub)
                    if tot in (0, 1, -1) or all(spec.edges[i].weight is None for i in sub):
                        continue
                    acc = self.Wsym.get(sub[0], symx.val(1))
                    for i in sub[1:]:
                        acc = acc + self.Wsym.get(i, symx.val(1))
                    if tot in self.table:
                        if str(self.table[tot].e) != str(acc.e):
                            raise ValueError(f'spec reuses a fingerprint: the weight sum {tot} of edges {sub} is also the '
                                             f'value of {self.table[tot].e}')
                        continue
                    self.table[tot] = acc

    def _sym(self, val, name):
        val = Fraction(val)
        if val in (0, 1, -1):
            return symx.val(val)
        if val not in self.table:
            self.table[val] = symx.real(name)
            self.names[val] = name
        return self.table[val]


def _positions(c, syms: Symbols):
    """state positions by initial-value fingerprint in the returned y0"""
    y0 = np.asarray(c.args[1], dtype=float).reshape(-1)
    pos = {}
    for j, v in enumerate(y0):
        fr = tv.frac_of(v)
        k = syms.state_pos_fp.get(fr)
        if k is not None:
            pos.setdefault(k, []).append(j)
    return pos, len(y0)


def _smap_positions(smap):
    out = {}
    for k, v in smap.items():
        if isinstance(v, (tuple, list)):
            out[k] = list(range(int(v[0]), int(v[1])))
        else:
            out[k] = [int(v)]
    return out


def validate(spec: ModelSpec, c: tv.Compiled, tally: decide.Tally, vectorized: bool, twin=True, cvc5=False,
             delayed_factory=None, ext_inputs=None, t_sym=None, extra_state=None, run_symbolic=None,
             extra_table=None, extra_assumptions=(), label='', plugin=None):
    """Returns dict(violations=[...], inconclusive=[...], diagnostics=[...], obligations=[...])."""
    res = dict(violations=[], inconclusive=[], diagnostics=[], obligations=[])
    syms = Symbols(spec)
    pos, ny = _positions(c, syms)
    ref_states = []
    for n, ns in spec.nodes.items():
        for oname in ns.ops:
            for lhs, kind, e in spec.ops[oname].eqs:
                if kind == 'de':
                    ref_states.append((n, oname, lhs))

    # (a) state layout -------------------------------------------------------------------
    used = {}
    for sv in ref_states:
        p = pos.get(sv, [])
        if len(p) != 1:
            res['violations'].append(dict(kind='state-layout', what=f"declared state variable {'/'.join(sv)} has "
                                          f"{len(p)} positions carrying its initial value in the returned state "
                                          f"vector (expected exactly 1)", positions=p))
            continue
        if p[0] in used:
            res['violations'].append(dict(kind='state-layout', what=f"{sv} and {used[p[0]]} share position {p[0]}"))
        used[p[0]] = sv
    sm = _smap_positions(c.smap)
    covered = sorted(j for v in sm.values() for j in v)
    if len(covered) != len(set(covered)):
        res['violations'].append(dict(kind='state-layout', what=f"state map positions overlap: {c.smap}"))
    for sv in ref_states:
        key = '/'.join(sv)
        if key in sm and sv in pos and len(pos[sv]) == 1:
            if pos[sv][0] not in sm[key]:
                res['violations'].append(dict(kind='state-layout', what=f"state map sends {key} to {sm[key]} but its "
                                              f"initial value sits at {pos[sv][0]}"))
        elif not vectorized and key not in sm:
            res['violations'].append(dict(kind='state-layout', what=f"state map has no entry for {key}: {c.smap}"))
    for sv in ref_states:
        if sv in pos and len(pos[sv]) == 1 and not any(pos[sv][0] in v for v in sm.values()):
            res['violations'].append(dict(kind='state-layout', what=f"position of {sv} not covered by the state map"))

    if any(v['kind'] == 'state-layout' for v in res['violations']):
        return res

    # concrete shadow run: the real function on the very arguments it was returned with ------------
    try:
        shadow = tv.call_real(c, [_copy_arg(a) for a in c.args])
        shadow = np.asarray(_to_numpy(shadow), dtype=float).reshape(-1)
        if shadow.shape[0] != ny:
            res['violations'].append(dict(kind='shape', what=f"vector field returns {shadow.shape[0]} entries for "
                                          f"{ny} states"))
            return res
    except Exception as e:   # noqa
        res['violations'].append(dict(kind='emitted-function-raises',
                                      what=f"the emitted function raises on the arguments returned with it: "
                                           f"{type(e).__name__}: {e}"))
        return res

    # the function OBJECT must compute what the emitted TEXT says (the symbolic run below executes the text): execute the
    # text concretely in a fresh namespace on the same arguments
    if c.backend != 'fortran' and c.src and run_symbolic is None:
        try:
            ns = {'__name__': '__emitted_text__'}
            exec(compile(c.src, '<emitted text>', 'exec'), ns)
            txt = np.asarray(_to_numpy(ns[c.fname](*[_copy_arg(a) for a in c.args])), dtype=float).reshape(-1)
            if txt.shape != shadow.shape or not np.allclose(txt, shadow, rtol=1e-6, atol=1e-9, equal_nan=True):
                res['violations'].append(dict(kind='function-object-differs-from-its-text',
                                              what=f"the returned function evaluates to {shadow.tolist()} on the arguments "
                                                   f"returned with it, the text emitted for it to {txt.tolist()}"))
                return res
        except Exception as e:   # noqa
            res['inconclusive'].append(dict(kind='text-exec', what=f"{type(e).__name__}: {e}"))

    # (b) symbolic run: once per feasible path (helper defs with Python branches, argmin ... fork) ----------
    y_sym = symx.symarray('y', ny)
    y_names = [f"y_{j}" for j in range(ny)]
    table = dict(syms.table)
    if extra_table:
        table.update(extra_table)
    state = {}

    def harness():
        binding = tv.Binding(table)
        state['binding'] = binding
        if run_symbolic is not None:
            out, sargs = run_symbolic(c, binding, y_sym)
        else:
            ov = plugin.arg_overrides(c, binding, t_sym) if plugin else {}
            out, sargs = tv.run_symbolic(c, binding, y_sym=y_sym, t_sym=t_sym, overrides=ov.get('args'),
                                         hist=ov.get('hist'))
        tv.check_cells(out, 'dy')
        return out, sargs, binding
    n_paths = 0
    try:
        paths = list(symx.explore(harness, assumptions=list(extra_assumptions), max_paths=64))
    except symx.Unsupported as e:
        res['inconclusive'].append(dict(kind='engine', what=str(e)))
        return res
    for pi, (pc, r) in enumerate(paths):
        n_paths += 1
        lab = label + (f"#path{pi}" if len(paths) > 1 else '')
        if isinstance(r, symx.Unsupported):
            res['inconclusive'].append(dict(kind='engine', what=str(r)))
            continue
        if isinstance(r, BaseException):
            # the emitted function raised on symbolic inputs: confirm with the real function on its own arguments
            real = None
            try:
                tv.call_real(c, [_copy_arg(a) for a in c.args])
            except Exception as e2:   # noqa
                real = f"{type(e2).__name__}: {e2}"
            if real is not None:
                res['violations'].append(dict(kind='emitted-function-raises', what=real, symbolic=str(r)))
            else:
                res['inconclusive'].append(dict(kind='engine', what=f"symbolic run raised {type(r).__name__}: {r}"))
            continue
        out, sargs, binding = r
        _check_path(spec, c, tally, vectorized, twin and pi == 0, cvc5, delayed_factory, ext_inputs, t_sym, plugin, lab,
                    res, syms, pos, ny, ref_states, y_sym, y_names, out, sargs, binding, list(pc))
    res['paths'] = n_paths
    res['out_terms'] = None
    return res


def _check_path(spec, c, tally, vectorized, twin, cvc5, delayed_factory, ext_inputs, t_sym, plugin, label, res, syms, pos,
                ny, ref_states, y_sym, y_names, out, sargs, binding, pc):
    out = np.asarray(out, dtype=object).reshape(-1)
    if out.shape[0] != ny:
        res['violations'].append(dict(kind='shape', what=f"vector field has {out.shape[0]} entries for {ny} states"))
        return res

    # fingerprints that never arrived (diagnostic; the equality below decides)
    for val, name in syms.names.items():
        if val not in binding.found:
            res['diagnostics'].append(f"declared value {float(val)} of {name} appears in no returned argument or "
                                      f"literal")

    # (c) argument names vs values -------------------------------------------------------
    for k, ix, symname in binding.slots:
        parts = k.split('/')
        if len(parts) >= 3 and not vectorized:
            node, op, var = '/'.join(parts[:-2]), parts[-2], parts[-1]
            if node in spec.nodes and op in spec.ops and var in spec.ops[op].vars and op in spec.nodes[node].ops:
                want = syms.P.get((node, op, var))
                if want is not None and str(want.e) != symname:
                    res['violations'].append(dict(kind='arg-name', what=f"argument named {k} carries the value of "
                                                  f"{symname}, not of {want.e}"))

    # (d) vector field -------------------------------------------------------------------
    def Y(n, o, v):
        return y_sym[pos[(n, o, v)][0]]

    def P(n, o, v):
        return syms.P[(n, o, v)]

    def W(i):
        return syms.Wsym[i]

    def EP(i, o, v):
        return syms.EPsym[(i, o, v)]
    delayed = delayed_factory(spec, syms, y_sym, pos, sargs, c) if delayed_factory else None
    past = None
    if plugin:
        import types
        ctx = types.SimpleNamespace(spec=spec, c=c, syms=syms, y_sym=y_sym, pos=pos, sargs=sargs, out=out, res=res,
                                    tally=tally, pc=pc, binding=binding, t_sym=t_sym, vectorized=vectorized,
                                    delayed=None, past=None, abort=False, P=P, Y=Y, W=W, EP=EP, ny=ny,
                                    ref_states=ref_states, y_names=y_names, edge_state=None)
        plugin.after_run(ctx)
        out, delayed, past, pc = ctx.out, ctx.delayed, ctx.past, ctx.pc
        edge_state = ctx.edge_state
        if ctx.abort:
            return res
    else:
        edge_state = None
    R = refsem.Ref(spec, refsem.SymDom(), P, Y, W, EP, delayed=delayed, ext_inputs=ext_inputs, past=past,
                   edge_state=edge_state)
    for sv in ref_states:
        try:
            ref = R.deriv(*sv)
        except refsem.CycleError as e:
            res['inconclusive'].append(dict(kind='spec', what=f'cyclic spec {e}'))
            continue
        gen = out[pos[sv][0]]
        v, model = decide.prove_equal(gen, ref, pc=pc, tally=tally)
        ob = dict(var='/'.join(sv) + label, verdict=v)
        if v == 'unsat' and cvc5:
            cv = decide.cvc5_cross(gen, ref, pc=pc)
            tally.cvc5_checked += 1
            ob['cvc5'] = cv
            if cv == 'sat':
                tally.cvc5_disagree += 1
                res['inconclusive'].append(dict(kind='solver-disagreement', what=f"z3 unsat, cvc5 sat on {sv}"))
        if v == 'unsat' and twin:
            if not decide.twin_check(gen, ref, pc=pc, tally=tally):
                res['inconclusive'].append(dict(kind='vacuous', what=f"twin not refuted for {sv}"))
        if v == 'sat':
            dis = decide.numeric_disagreement(gen, ref, model, pc=pc)
            if dis is None:
                tally.sat_spurious += 1
                res['inconclusive'].append(dict(kind='sat-not-reproduced', what=f"{'/'.join(sv)}: solver model does "
                                                f"not reproduce numerically", gen=str(symx.lift(gen))[:300],
                                                ref=str(symx.lift(ref))[:300]))
            else:
                env, gv, rv_ = dis
                rec = dict(kind='vector-field', var='/'.join(sv), position=pos[sv][0],
                           what=f"d/dt {'/'.join(sv)} differs from the model", env=env, gen_value=gv, ref_value=rv_,
                           gen_term=str(z3.simplify(symx.lift(gen)))[:400],
                           ref_term=str(z3.simplify(symx.lift(ref)))[:400])
                # replay on the real compiled function (float64)
                try:
                    tval = t_sym if isinstance(t_sym, (int, np.integer)) else env.get('t', 0.0)
                    fargs = tv.float_args(c, env, binding, y_names, t_value=tval,
                                          hist_fn=getattr(plugin, 'hist_float', None))
                    real = np.asarray(_to_numpy(tv.call_real(c, fargs)), dtype=float).reshape(-1)[pos[sv][0]]
                    rec['real_value'] = float(real)
                    ok = abs(real - rv_) > 1e-7 * max(1.0, abs(real), abs(rv_))
                except Exception as e:   # noqa
                    rec['real_value'] = f"raised {type(e).__name__}: {e}"
                    ok = True
                if ok:
                    tally.sat_confirmed += 1
                    # attribution to a known finding: the emitted term must equal the finding's defect model
                    from . import findings
                    for ids, opts in findings.tv_defect_candidates(None, spec, vectorized):
                        Rd = refsem.Ref(spec, refsem.SymDom(), P, Y, W, EP, delayed=delayed, ext_inputs=ext_inputs,
                                        past=past, **opts)
                        try:
                            vd, _ = decide.prove_equal(gen, Rd.deriv(*sv), pc=pc)
                        except Exception:   # noqa
                            continue
                        if vd == 'unsat':
                            rec['finding'] = ids[0]
                            rec['finding_all'] = ids
                            break
                    res['violations'].append(rec)
                else:
                    tally.sat_spurious += 1
                    res['inconclusive'].append(dict(rec, kind='sat-not-reproduced-on-real-function'))
        elif v == 'unknown':
            res['inconclusive'].append(dict(kind='solver-unknown', what='/'.join(sv)))
        res['obligations'].append(ob)
    return res


def _copy_arg(a):
    if isinstance(a, np.ndarray):
        return np.array(a, copy=True)
    if hasattr(a, 'clone') and hasattr(a, 'detach'):
        return a.clone()
    return a


def _to_numpy(x):
    if hasattr(x, 'detach'):
        return x.detach().cpu().numpy()
    return np.asarray(x)


def spec_blob(spec):
    return base64.b64encode(pickle.dumps(spec)).decode()


def spec_from_blob(b):
    return pickle.loads(base64.b64decode(b))
