"""Parallel job runner: every program is compiled in a forked worker (PyRates keeps global caches) of a parent
that has imported pyrates but compiled nothing; each worker handles exactly one job."""
import multiprocessing as mp
import os
import signal
import time
import traceback

N_WORKERS = int(os.environ.get('VERIF_WORKERS', '16'))


def _wrap(fn, job):
    try:
        from . import symx
        symx.reset_stats()
        t = time.time()
        r = fn(job)
        return dict(ok=True, result=r, stats=dict(symx.STATS), wall=time.time() - t)
    except BaseException as e:   # noqa
        return dict(ok=False, error=f"{type(e).__name__}: {e}", tb=traceback.format_exc()[-2000:])


def run_jobs(fn, jobs, timeout=300, workers=None, progress=None):
    """yields (job, outcome) in submission order; outcome = dict(ok, result | error)"""
    workers = workers or N_WORKERS
    if not jobs:
        return
    import pyrates  # noqa: F401  (make sure the parent holds the imported package before forking)
    ctx = mp.get_context('fork')
    with ctx.Pool(min(workers, len(jobs)), maxtasksperchild=1) as pool:
        handles = [(j, pool.apply_async(_wrap, (fn, j))) for j in jobs]
        for j, h in handles:
            try:
                out = h.get(timeout)
            except mp.TimeoutError:
                out = dict(ok=False, error='job timeout', tb='')
            except Exception as e:   # noqa
                out = dict(ok=False, error=f"{type(e).__name__}: {e}", tb='')
            yield j, out
