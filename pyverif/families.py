"""Bounded families of generated model specifications."""
import itertools
import random
from fractions import Fraction as F

from . import expr as X
from .expr import V, C
from .spec import OpSpec, NodeSpec, EdgeSpec, EdgeTplSpec, ModelSpec, FP


# ---------------------------------------------------------------------------------------------
# operator library (names parameterised so identifier sets can be adversarial)
# ---------------------------------------------------------------------------------------------
def op_two_inputs(fp, name='o1', x='x', u='u', w='w', k='k', g='g', c='c', style=None):
    """x' = -k*x + g*tanh(u) + c*w"""
    e = X.add(X.add(X.mul(X.neg(V(k)), V(x)), X.mul(V(g), X.call('tanh', V(u)))), X.mul(V(c), V(w)))
    return OpSpec(name, [(x, 'de', e)],
                  {x: ('state', fp()), u: ('input', fp()), w: ('input', fp()), k: ('const', fp()),
                   g: ('const', fp()), c: ('const', fp())}, output=x, style=style or {})


def op_leaky(fp, name='li', x='x', u='u', tau='tau', style=None, de='prime'):
    """x' = (u - x)/tau"""
    e = X.div(X.sub(V(u), V(x)), V(tau))
    return OpSpec(name, [(x, 'de', e)], {x: ('state', fp()), u: ('input', fp()), tau: ('const', fp())},
                  output=x, style=style or {}, de_notation=de)


def op_sigmoid_alg(fp, name='sg', m='m', v='v', s='s', th='th'):
    """m = s*sigmoid(v - th)   (algebraic output)"""
    e = X.mul(V(s), X.call('sigmoid', X.sub(V(v), V(th))))
    return OpSpec(name, [(m, 'alg', e)], {m: ('alg', F(0)), v: ('input', fp()), s: ('const', fp()),
                                          th: ('const', fp())}, output=m)


def op_rpo(fp, name='rpo', a='a', b='b', r='r_in', h='h', tau='tau'):
    """second-order synapse: a' = b ; b' = h*r/tau - 2*b/tau - a/tau^2"""
    e2 = X.sub(X.sub(X.div(X.mul(V(h), V(r)), V(tau)), X.div(X.mul(C(2), V(b)), V(tau))), X.div(V(a), X.pw(V(tau), 2)))
    return OpSpec(name, [(a, 'de', V(b)), (b, 'de', e2)],
                  {a: ('state', fp()), b: ('state', fp()), r: ('input', fp()), h: ('const', fp()),
                   tau: ('const', fp())}, output=a)


def op_lin_alg(fp, name='la', out='z', inp='q', gain='gn'):
    """z = gn*q + q*q   (algebraic output)"""
    e = X.add(X.mul(V(gain), V(inp)), X.mul(V(inp), V(inp)))
    return OpSpec(name, [(out, 'alg', e)], {out: ('alg', F(0)), inp: ('input', fp()), gain: ('const', fp())},
                  output=out)


def op_source(fp, name='src', x='s', lam='lam'):
    """s' = -lam*s*s  (no inputs)"""
    e = X.mul(X.neg(V(lam)), X.mul(V(x), V(x)))
    return OpSpec(name, [(x, 'de', e)], {x: ('state', fp()), lam: ('const', fp())}, output=x)


# ---------------------------------------------------------------------------------------------
def _node_overrides(fp, spec_ops, opnames, what=('state', 'const')):
    ov = {}
    for o in opnames:
        for v, (kind, _) in spec_ops[o].vars.items():
            if kind in what:
                ov[(o, v)] = fp()
    return ov


def fam_edges_two_nodes(max_edges=3, n_nodes=2):
    """F2: every multiset of <= max_edges edges over the edge kinds of two/three nodes carrying one operator with
    two input variables (u, w).  Contains parallel edges, self loops, fan-in/out, doubly driven inputs."""
    kinds = []
    for s in range(n_nodes):
        for t in range(n_nodes):
            for tv_ in ('u', 'w'):
                kinds.append((s, t, tv_))
    out = []
    for r in range(0, max_edges + 1):
        for es in itertools.combinations_with_replacement(kinds, r):
            fp = FP()
            op = op_two_inputs(fp)
            ops = {'o1': op}
            nodes = {f"n{i}": NodeSpec(['o1'], _node_overrides(fp, ops, ['o1'])) for i in range(n_nodes)}
            edges = [EdgeSpec(f"n{s}/o1/x", f"n{t}/o1/{tv_}", fp()) for (s, t, tv_) in es]
            par = len(es) != len(set(es))
            out.append((f"F2:{n_nodes}:{es}", ModelSpec('m', ops, nodes, edges,
                                                        note=f"edge multiset {es}; parallel={par}")))
    return out


def fam_single_node_chains():
    """F1: one node, 1-3 operators wired by same-named output -> input, all declaration orders."""
    out = []
    # sg (v -> m) ; la (q=m ... ) ; li (u) chains: src -> sg -> li  via names
    for perm in itertools.permutations(range(3)):
        fp = FP()
        o_src = op_source(fp, 'src', x='v')                       # output v
        o_sg = op_sigmoid_alg(fp, 'sg', m='u', v='v')              # input v, output u
        o_li = op_leaky(fp, 'li', x='x', u='u')                    # input u
        ops = {'src': o_src, 'sg': o_sg, 'li': o_li}
        order = [['src', 'sg', 'li'][i] for i in perm]
        nodes = {'n0': NodeSpec(order, _node_overrides(fp, ops, order))}
        out.append((f"F1:chain:{perm}", ModelSpec('m', ops, nodes, [], note=f"chain src->sg->li declared {order}")))
    # fan-in: two operators with the same output name feeding one input
    for perm in itertools.permutations(range(3)):
        fp = FP()
        o_a = op_source(fp, 'srca', x='u', lam='la1')
        o_b = op_sigmoid_alg(fp, 'sgb', m='u', v='vv')
        o_li = op_leaky(fp, 'li', x='x', u='u')
        ops = {'srca': o_a, 'sgb': o_b, 'li': o_li}
        order = [['srca', 'sgb', 'li'][i] for i in perm]
        nodes = {'n0': NodeSpec(order, _node_overrides(fp, ops, order))}
        out.append((f"F1:fanin:{perm}", ModelSpec('m', ops, nodes, [], note=f"two ops output u -> li.u, {order}")))
    return out


def op_pow_in(fp, name='pw', x='x', u='u', k='k', style=None):
    """x' = u^2 - k*x + u^3   (the input stands directly next to the power sign)"""
    e = X.add(X.sub(X.pw(V(u), 2), X.mul(V(k), V(x))), X.pw(V(u), 3))
    return OpSpec(name, [(x, 'de', e)], {x: ('state', fp()), u: ('input', fp()), k: ('const', fp())}, output=x,
                  style=style or {})


def fam_fanin_pow():
    """one node: two operators write u, a third reads u inside powers - written u^2, u**2, u ^ 2, (u)^2: the textual
    substitution u -> (u + u_v1) must find the identifier next to every spelling of the power sign"""
    out = []
    styles = [dict(space=0, pow='^'), dict(space=0, pow='**'), dict(space=1, pow='^'), dict(space=0, pow='^', parens=1),
              dict(space=1, pow='**')]
    for si, st in enumerate(styles):
        fp = FP()
        o_a = op_source(fp, 'srca', x='u', lam='la1')
        o_b = op_sigmoid_alg(fp, 'sgb', m='u', v='vv')
        o_p = op_pow_in(fp, style=st)
        ops = {'srca': o_a, 'sgb': o_b, 'pw': o_p}
        order = ['srca', 'sgb', 'pw'] if si % 2 == 0 else ['pw', 'sgb', 'srca']
        nodes = {'n0': NodeSpec(order, _node_overrides(fp, ops, order))}
        out.append((f"F1:fanin-pow:{si}", ModelSpec('m', ops, nodes, [], note=f"two ops output u -> pw.u, style {st}")))
    return out


def fam_innode_plus_edge():
    """an input variable that is fed by an operator of its own node (state or algebraic output) AND by an edge"""
    out = []
    for variant in range(3):
        fp = FP()
        o_src = op_source(fp, 'srca', x='u', lam='la1')
        o_sg = op_sigmoid_alg(fp, 'sgb', m='u', v='vv')
        o_li = op_leaky(fp, 'li', x='x', u='u')
        ops = {'srca': o_src, 'sgb': o_sg, 'li': o_li}
        first = [['srca', 'li'], ['sgb', 'li'], ['srca', 'sgb', 'li']][variant]
        nodes = {'n0': NodeSpec(first, _node_overrides(fp, ops, first)), 'n1': NodeSpec(['li'], _node_overrides(fp, ops, ['li']))}
        edges = [EdgeSpec('n1/li/x', 'n0/li/u', fp()), EdgeSpec('n0/li/x', 'n1/li/u', fp())]
        out.append((f"F1:innode+edge:{variant}", ModelSpec('m', ops, nodes, edges, note=f"in-node producers {first[:-1]} and an edge feed li.u")))
    return out


def fam_innode_partial_and_multi_input():
    """(a) two structurally identical nodes whose input u has an in-node producer; only ONE of them also receives an
    edge.  (b) an operator with two inputs u, w: u has two in-node producers, w an edge - in every declaration order."""
    out = []
    for variant in range(2):
        fp = FP()
        ops = {'sgb': op_sigmoid_alg(fp, 'sgb', m='u', v='vv'), 'srca': op_source(fp, 'srca', x='u', lam='la1'),
               'li': op_leaky(fp, 'li', x='x', u='u')}
        first = ['sgb', 'li'] if variant == 0 else ['srca', 'li']
        nodes = {'n0': NodeSpec(first, _node_overrides(fp, ops, first)), 'n1': NodeSpec(first, _node_overrides(fp, ops, first)),
                 'm': NodeSpec(['li'], _node_overrides(fp, ops, ['li']))}
        edges = [EdgeSpec('m/li/x', 'n0/li/u', fp()), EdgeSpec('n1/li/x', 'm/li/u', fp())]
        out.append((f"F1:innode+edge-partial:{variant}", ModelSpec('m', ops, nodes, edges,
                                                                  note="in-node producer everywhere, edge into one node only")))
    for order in (['srca', 'sgb', 'o1'], ['o1', 'sgb', 'srca'], ['sgb', 'o1', 'srca']):
        fp = FP()
        ops = {'srca': op_source(fp, 'srca', x='u', lam='la1'), 'sgb': op_sigmoid_alg(fp, 'sgb', m='u', v='vv'),
               'o1': op_two_inputs(fp, 'o1', u='u', w='w'), 'li': op_leaky(fp)}
        nodes = {'n0': NodeSpec(order, _node_overrides(fp, ops, order)), 'm': NodeSpec(['li'], _node_overrides(fp, ops, ['li']))}
        edges = [EdgeSpec('m/li/x', 'n0/o1/w', fp()), EdgeSpec('n0/o1/x', 'm/li/u', fp())]
        out.append((f"F1:two-inputs-multi-source:{''.join(o[0] for o in order)}",
                    ModelSpec('m', ops, nodes, edges, note=f"u: two in-node producers, w: edge; declared {order}")))
    return out


def fam_output_designation():
    """two nodes whose first operators have the same equations and the same variable declarations and differ only in WHICH
    variable is the output (u in one node, v in the other); the second operator reads u and v: in each node exactly the
    input named like that node's output is fed from inside the node, the other one keeps its default / its edge"""
    import copy
    out = []
    for variant in range(2):
        fp = FP()
        e_u = X.add(X.mul(X.neg(V('la')), V('u')), V('inp'))
        e_v = X.sub(X.mul(V('lb'), V('inp')), V('v'))
        da = OpSpec('drva', [('u', 'de', e_u), ('v', 'de', e_v)],
                    {'u': ('state', fp()), 'v': ('state', fp()), 'la': ('const', fp()), 'lb': ('const', fp()),
                     'inp': ('input', fp())}, output='u')
        db = copy.deepcopy(da)
        db.name, db.output = 'drvb', 'v'
        ops = {'drva': da, 'drvb': db, 'o1': op_two_inputs(fp, 'o1', u='u', w='v')}
        nodes = {'n1': NodeSpec(['drva', 'o1'], {('drva', 'u'): fp(), ('drva', 'v'): fp(), ('o1', 'x'): fp()}),
                 'n2': NodeSpec(['drvb', 'o1'], {('drvb', 'u'): fp(), ('drvb', 'v'): fp(), ('o1', 'x'): fp()})}
        edges = [EdgeSpec('n1/o1/x', 'n2/drvb/inp', fp())]
        if variant:
            edges.append(EdgeSpec('n2/o1/x', 'n1/drva/inp', fp()))
        out.append((f"F1:output-designation:{variant}", ModelSpec('m', ops, nodes, edges,
                                                                 note="operators that differ only in their output variable")))
    return out


def fam_twin_operators():
    """node types that hold two structurally identical operators (same equations and declarations, other values); the
    nodes of one vectorization group call them differently (e/i in a0, a1; exc/inh in b0), in both declaration orders"""
    out = []
    for variant in range(2):
        fp = FP()
        ops = {n: op_leaky(fp, n) for n in ('e', 'i', 'exc', 'inh')}
        mk = lambda names: NodeSpec(list(names), _node_overrides(fp, ops, list(names)))      # noqa
        if variant == 0:
            nodes = {'a0': mk(['e', 'i']), 'a1': mk(['e', 'i']), 'b0': mk(['exc', 'inh'])}
        else:
            nodes = {'b0': mk(['exc', 'inh']), 'a0': mk(['e', 'i']), 'a1': mk(['e', 'i'])}
        edges = [EdgeSpec('a0/e/x', 'b0/exc/u', fp()), EdgeSpec('b0/inh/x', 'a1/i/u', fp()), EdgeSpec('a1/e/x', 'a0/i/u', fp())]
        out.append((f"F1:twin-operators:{variant}", ModelSpec('m', ops, nodes, edges,
                                                              note="two structurally identical operators per node, named differently across nodes")))
    return out


def fam_unused_constant():
    """an operator that declares a constant its own equations do not mention; an edge reads it"""
    fp = FP()
    src = op_source(fp)
    src.vars['r0'] = ('const', fp())
    ops = {'src': src, 'li': op_leaky(fp)}
    nodes = {'p': NodeSpec(['src'], _node_overrides(fp, ops, ['src'])), 'q': NodeSpec(['li'], _node_overrides(fp, ops, ['li'])),
             'p2': NodeSpec(['src'], _node_overrides(fp, ops, ['src']))}
    edges = [EdgeSpec('p/src/r0', 'q/li/u', fp()), EdgeSpec('q/li/x', 'q/li/u', fp())]
    return [("F1:unused-constant-as-edge-source", ModelSpec('m', ops, nodes, edges,
                                                            note="declared constant used by an edge only"))]


def fam_same_name_edge():
    """edges whose source variable is called like the target's input variable (r -> r), between different node types and
    between nodes of one type"""
    out = []
    for variant in range(2):
        fp = FP()
        ops = {'opa': op_source(fp, 'opa', x='r', lam='la'), 'opc': op_leaky(fp, 'opc', x='v', u='r')}
        nodes = {'p1': NodeSpec(['opa'], _node_overrides(fp, ops, ['opa'])), 'p2': NodeSpec(['opc'], _node_overrides(fp, ops, ['opc'])),
                 'p3': NodeSpec(['opc'], _node_overrides(fp, ops, ['opc']))}
        edges = [EdgeSpec('p1/opa/r', 'p2/opc/r', fp()), EdgeSpec('p2/opc/v', 'p3/opc/r', fp())]
        if variant:
            nodes['p0'] = NodeSpec(['opa'], _node_overrides(fp, ops, ['opa']))
            edges.append(EdgeSpec('p0/opa/r', 'p3/opc/r', fp()))
        out.append((f"F1:same-name-source-and-target:{variant}", ModelSpec('m', ops, nodes, edges,
                                                                         note="edge r -> r")))
    # SEVERAL sources that are all called like the target's input: two nodes of one type and a node of another type
    # (each source needs a name of its own inside the generated edge operator)
    for variant in range(2):
        fp = FP()
        ops = {'opa': op_source(fp, 'opa', x='r', lam='la'), 'opb': op_leaky(fp, 'opb', x='r', u='q'),
               'opc': op_leaky(fp, 'opc', x='v', u='r')}
        nodes = {'p0': NodeSpec(['opa'], _node_overrides(fp, ops, ['opa'])), 'p1': NodeSpec(['opa'], _node_overrides(fp, ops, ['opa'])),
                 'p2': NodeSpec(['opc'], _node_overrides(fp, ops, ['opc'])), 'p4': NodeSpec(['opb'], _node_overrides(fp, ops, ['opb']))}
        edges = [EdgeSpec('p0/opa/r', 'p2/opc/r', fp()), EdgeSpec('p4/opb/r', 'p2/opc/r', fp())]
        if variant:
            edges.insert(1, EdgeSpec('p1/opa/r', 'p2/opc/r', fp()))
            edges.append(EdgeSpec('p2/opc/v', 'p4/opb/q', fp()))
        out.append((f"F1:same-name-fan-in:{variant}", ModelSpec('m', ops, nodes, edges,
                                                                note="edges r -> r from several sources into one input")))
    return out


def fam_mixed_nodes(seed=0, n=12):
    """F2b: 2-3 nodes of different operator structure (rpo+sg, li, two-input) with random edge sets incl. edges from
    two different variables of one node into one target variable, weight 1.0 / omitted / generic."""
    rnd = random.Random(seed)
    out = []
    for k in range(n):
        fp = FP()
        ops = {}
        ops['rpo'] = op_rpo(fp)
        ops['sg'] = op_sigmoid_alg(fp, 'sg', m='m', v='a')      # input a <- rpo output a
        ops['o1'] = op_two_inputs(fp)
        ops['li'] = op_leaky(fp)
        nodes = {
            'p': NodeSpec(['rpo', 'sg'], _node_overrides(fp, ops, ['rpo', 'sg'])),
            'q': NodeSpec(['o1'], _node_overrides(fp, ops, ['o1'])),
            'r': NodeSpec(['li'], _node_overrides(fp, ops, ['li'])),
        }
        srcs = ['p/sg/m', 'p/rpo/a', 'p/rpo/b', 'q/o1/x', 'r/li/x']
        tgts = ['p/rpo/r_in', 'q/o1/u', 'q/o1/w', 'r/li/u']
        ne = rnd.randint(1, 5)
        edges = []
        for _ in range(ne):
            s, t = rnd.choice(srcs), rnd.choice(tgts)
            wk = rnd.random()
            for _skip in range(len(edges)):
                fp()          # weights must not form an arithmetic progression: sums of parallel weights stay distinct
            w = None if wk < 0.15 else (F(1) if wk < 0.3 else fp())
            edges.append(EdgeSpec(s, t, w))
        out.append((f"F2b:{seed}:{k}", ModelSpec('m', ops, nodes, edges, note="mixed node types, random edges")))
    return out


def fam_names(seed=0):
    """F4: identifiers that are prefixes/suffixes of one another or look like generated names."""
    pools = [
        dict(x='x', u='x_v1', w='x_v2', k='k', g='kk', c='k_v1'),
        dict(x='r', u='r_in', w='r_in0', k='rr', g='r2', c='m_in2'),
        dict(x='weight', u='weight_in0', w='u_in1', k='t2', g='w', c='ww'),
        dict(x='a', u='a_in', w='in_a', k='aa', g='a_a', c='a1'),
        dict(x='x_v1', u='x', w='xx', k='x1', g='x_1', c='v1'),
    ]
    out = []
    for pi, names in enumerate(pools):
        for es in [(), ((0, 1, 'u'),), ((0, 1, 'u'), (1, 0, 'w')), ((0, 0, 'u'), (1, 1, 'w'), (0, 1, 'w'))]:
            fp = FP()
            op = op_two_inputs(fp, **names)
            ops = {'o1': op}
            nodes = {f"n{i}": NodeSpec(['o1'], _node_overrides(fp, ops, ['o1'])) for i in range(2)}
            edges = [EdgeSpec(f"n{s}/o1/{names['x']}", f"n{t}/o1/{names[tv_]}", fp()) for (s, t, tv_) in es]
            out.append((f"F4:{pi}:{es}", ModelSpec('m', ops, nodes, edges, note=f"identifier pool {names}")))
    # two operators on ONE node: the second has a variable of the first's name (renamed k -> k_v1 internally) AND a user
    # variable that is literally called like that generated name; both occur in one product / sum
    for variant in range(2):
        fp = FP()
        o_a = OpSpec('oa', [('x', 'de', X.mul(X.neg(V('k')), V('x')))], {'x': ('state', fp()), 'k': ('const', fp())}, output='x')
        e = X.add(X.sub(X.mul(V('k'), V('k_v1')), V('z')), X.add(V('k'), V('k_v1'))) if variant == 0 else \
            X.sub(X.mul(V('k_v1'), X.call('tanh', X.mul(V('k'), V('z')))), X.div(V('z'), V('k_v1')))
        o_b = OpSpec('ob', [('z', 'de', e)], {'z': ('state', fp()), 'k': ('const', fp()), 'k_v1': ('const', fp())}, output='z')
        ops = {'oa': o_a, 'ob': o_b}
        for order in (['oa', 'ob'], ['ob', 'oa']):
            nodes = {'n0': NodeSpec(order, _node_overrides(fp, ops, order))}
            out.append((f"F4:renamed-next-to-lookalike:{variant}:{order[0]}", ModelSpec('m', ops, nodes, [],
                                                                                      note="k of a second operator next to a user k_v1")))
    return out


def fam_hierarchy():
    """F3: circuits of circuits (depth 1 and 2) with edges inside and across sub-circuits."""
    out = []
    for depth in (1, 2):
        for variant in range(4):
            fp = FP()
            ops = {'li': op_leaky(fp), 'o1': op_two_inputs(fp)}
            pre = ['c0', 'c1'] if depth == 1 else ['g0/c0', 'g0/c1', 'g1/c0']
            nodes = {}
            for p in pre:
                nodes[f"{p}/a"] = NodeSpec(['li'], _node_overrides(fp, ops, ['li']))
                nodes[f"{p}/b"] = NodeSpec(['o1'], _node_overrides(fp, ops, ['o1']))
            edges = []
            for p in pre:
                edges.append(EdgeSpec(f"{p}/a/li/x", f"{p}/b/o1/u", fp()))
            if variant >= 1:
                edges.append(EdgeSpec(f"{pre[0]}/b/o1/x", f"{pre[1]}/a/li/u", fp()))
            if variant >= 2:
                edges.append(EdgeSpec(f"{pre[1]}/b/o1/x", f"{pre[0]}/b/o1/w", fp()))
                edges.append(EdgeSpec(f"{pre[-1]}/a/li/x", f"{pre[0]}/b/o1/w", fp()))
            if variant >= 3:
                edges.append(EdgeSpec(f"{pre[0]}/a/li/x", f"{pre[0]}/a/li/u", F(1)))
            out.append((f"F3:{depth}:{variant}", ModelSpec('top', ops, nodes, edges, note=f"hierarchy depth {depth}")))
    return out


def fam_edge_templates():
    """edges that carry an (algebraic) edge operator"""
    out = []
    for variant in range(4):
        fp = FP()
        ops = {'li': op_leaky(fp), 'o1': op_two_inputs(fp),
               'eop': op_lin_alg(fp, 'eop', out='z', inp='q', gain='gn')}
        nodes = {f"n{i}": NodeSpec(['li'] if i == 0 else ['o1'], _node_overrides(fp, ops, ['li'] if i == 0 else ['o1']))
                 for i in range(3)}
        etp = {'et': EdgeTplSpec('et', ['eop'])}
        edges = [EdgeSpec('n0/li/x', 'n1/o1/u', fp(), template='et', edge_overrides={'eop/gn': fp()})]
        if variant >= 1:
            edges.append(EdgeSpec('n1/o1/x', 'n2/o1/u', fp(), template='et', edge_overrides={'eop/gn': fp()}))
        if variant >= 2:
            edges.append(EdgeSpec('n2/o1/x', 'n1/o1/w', fp()))
        if variant >= 3:
            edges.append(EdgeSpec('n2/o1/x', 'n0/li/u', None, template='et'))
        out.append((f"FE:{variant}", ModelSpec('m', ops, nodes, edges, etp, note="edge templates")))
    return out


def op_diff_alg(fp, name='cpl', out='z', a='qs', b='qt', gain='gn'):
    """z = gn*(qs - qt*qt)   (algebraic edge operator with a source-side and a target-side input)"""
    e = X.mul(V(gain), X.sub(V(a), X.mul(V(b), V(b))))
    return OpSpec(name, [(out, 'alg', e)], {out: ('alg', F(0)), a: ('input', fp()), b: ('input', fp()),
                                            gain: ('const', fp())}, output=out)


def fam_edge_inputs():
    """edge operators with a second input read from a node variable (string-valued edge attribute), flat and inside
    sub-circuits of a hierarchy (where collect_edges has to prefix the path with the sub-circuit scope)"""
    out = []
    for depth in (0, 1, 2):
        for variant in range(2):
            fp = FP()
            ops = {'li': op_leaky(fp), 'o1': op_two_inputs(fp), 'cpl': op_diff_alg(fp)}
            pre = [''] if depth == 0 else (['c0/', 'c1/'] if depth == 1 else ['g0/c0/', 'g0/c1/', 'g1/c0/'])
            nodes, edges = {}, []
            for p in pre:
                nodes[f"{p}a"] = NodeSpec(['li'], _node_overrides(fp, ops, ['li']))
                nodes[f"{p}b"] = NodeSpec(['o1'], _node_overrides(fp, ops, ['o1']))
                edges.append(EdgeSpec(f"{p}a/li/x", f"{p}b/o1/u", fp(), template='ei', edge_overrides={'cpl/gn': fp()},
                                      var_map={'qs': 'source', 'qt': f"{p}b/o1/x"}))
                if variant:
                    edges.append(EdgeSpec(f"{p}b/o1/x", f"{p}a/li/u", fp(), template='ei',
                                          var_map={'qs': 'source', 'qt': f"{p}a/li/x"}))
            if depth:
                edges.append(EdgeSpec(f"{pre[0]}b/o1/x", f"{pre[1]}b/o1/w", fp(), template='ei',
                                      var_map={'qs': 'source', 'qt': f"{pre[1]}a/li/x"}))
            out.append((f"FEI:{depth}:{variant}", ModelSpec('top' if depth else 'm', ops, nodes, edges,
                                                           {'ei': EdgeTplSpec('ei', ['cpl'])},
                                                           note=f"edge operator with a target-side input, depth {depth}")))
    return out


def fam_partial_overrides():
    """nodes of two/three operators where only SOME operators carry per-node values (and nodes sharing one template
    object next to a node with its own values): every serialisation must keep exactly those values"""
    out = []
    for variant in range(4):
        fp = FP()
        ops = {'rpo': op_rpo(fp), 'sg': op_sigmoid_alg(fp, 'sg', m='m', v='a'), 'li': op_leaky(fp)}
        which = [['rpo'], ['sg'], ['rpo', 'sg'], []][variant]
        nodes = {'p': NodeSpec(['rpo', 'sg'], _node_overrides(fp, ops, which)),
                 'q': NodeSpec(['rpo', 'sg'], _node_overrides(fp, ops, ['sg'] if variant % 2 == 0 else ['rpo'])),
                 'r': NodeSpec(['li'], _node_overrides(fp, ops, ['li']))}
        edges = [EdgeSpec('p/sg/m', 'q/rpo/r_in', fp()), EdgeSpec('q/sg/m', 'r/li/u', fp()),
                 EdgeSpec('r/li/x', 'p/rpo/r_in', fp())]
        out.append((f"FPO:{variant}", ModelSpec('m', ops, nodes, edges,
                                                note=f"per-node values on operators {which} of p only")))
    return out


def fam_zero_overrides():
    """per-node values that are exactly 0 (a value, not 'absent'), on nodes that are not the first user of the operator"""
    out = []
    for variant in range(2):
        fp = FP()
        ops = {'o1': op_two_inputs(fp), 'li': op_leaky(fp)}
        nodes = {f"n{i}": NodeSpec(['o1'], _node_overrides(fp, ops, ['o1'])) for i in range(3)}
        nodes['n1'].overrides[('o1', 'k')] = F(0)
        nodes['n2'].overrides[('o1', 'g')] = F(0)
        nodes['n2'].overrides[('o1', 'w')] = F(0)          # unconnected input with default 0
        if variant:
            nodes['n1'].overrides[('o1', 'c')] = F(0)
        nodes['m0'] = NodeSpec(['li'], _node_overrides(fp, ops, ['li']))
        edges = [EdgeSpec('n0/o1/x', 'n1/o1/u', fp()), EdgeSpec('m0/li/x', 'n0/o1/w', fp()), EdgeSpec('n1/o1/x', 'm0/li/u', fp()),
                 EdgeSpec('n2/o1/x', 'n1/o1/w', F(0) if variant else fp())]
        out.append((f"FZ:{variant}", ModelSpec('m', ops, nodes, edges, note="per-node values equal to 0")))
    # edge attributes that are exactly 0: a switched-off plain edge, and an edge operator constant set to 0 on one edge
    fp = FP()
    ops = {'li': op_leaky(fp), 'o1': op_two_inputs(fp), 'eop': op_lin_alg(fp, 'eop', out='z', inp='q', gain='gn')}
    nodes = {f"n{i}": NodeSpec(['li'] if i == 0 else ['o1'], _node_overrides(fp, ops, ['li'] if i == 0 else ['o1']))
             for i in range(3)}
    edges = [EdgeSpec('n0/li/x', 'n1/o1/u', fp(), template='et', edge_overrides={'eop/gn': F(0)}),
             EdgeSpec('n1/o1/x', 'n2/o1/u', fp(), template='et', edge_overrides={'eop/gn': fp()}),
             EdgeSpec('n2/o1/x', 'n1/o1/w', F(0)), EdgeSpec('n2/o1/x', 'n0/li/u', fp())]
    out.append(("FZ:edge-attributes", ModelSpec('m', ops, nodes, edges, {'et': EdgeTplSpec('et', ['eop'])},
                                                note="edge weight 0 and edge-operator constant 0")))
    return out


def fam_equal_values():
    """nodes sharing one NodeTemplate object / all-equal parameter values (constant-vector collapse path)"""
    out = []
    for n_nodes in (2, 3):
        for share in (True, False):
            fp = FP()
            op = op_two_inputs(fp)
            ops = {'o1': op}
            if share:
                nodes = {}
                inits = {}
                for i in range(n_nodes):
                    nodes[f"n{i}"] = NodeSpec(['o1'], {('o1', 'x'): fp()}, template=None)
            else:
                nodes = {f"n{i}": NodeSpec(['o1'], _node_overrides(fp, ops, ['o1'])) for i in range(n_nodes)}
            edges = [EdgeSpec(f"n{i}/o1/x", f"n{(i + 1) % n_nodes}/o1/u", fp()) for i in range(n_nodes)]
            edges.append(EdgeSpec("n0/o1/x", "n1/o1/w", F(3, 2)))
            edges.append(EdgeSpec("n1/o1/x", "n0/o1/w", F(3, 2)))
            out.append((f"FEQ:{n_nodes}:{share}", ModelSpec('m', ops, nodes, edges,
                                                            note=f"equal parameter values across nodes={share}")))
    return out


def fam_vectorization(seed=0, n=20, max_per_type=4):
    """C04: 1-2 node types x 1..4 nodes per type, weight patterns dense / sparse / diagonal / fan-in from two types,
    self connections, equal or distinct per-node parameters, optional edge template."""
    rnd = random.Random(seed)
    out = []
    patterns = ['dense', 'sparse', 'diag', 'ring', 'fanin', 'random']
    for k in range(n):
        fp = FP()
        ops = {'li': op_leaky(fp), 'o1': op_two_inputs(fp), 'rpo': op_rpo(fp)}
        na = rnd.randint(1, max_per_type)
        nb = rnd.randint(0, max_per_type)
        equal = rnd.random() < 0.25
        nodes = {}
        for i in range(na):
            nodes[f"a{i}"] = NodeSpec(['o1'], {('o1', 'x'): fp()} if equal else _node_overrides(fp, ops, ['o1']))
        for i in range(nb):
            nodes[f"b{i}"] = NodeSpec(['rpo'], {('rpo', 'a'): fp(), ('rpo', 'b'): fp()} if equal
                                      else _node_overrides(fp, ops, ['rpo']))
        pat = patterns[k % len(patterns)]
        edges = []
        A = [f"a{i}" for i in range(na)]
        B = [f"b{i}" for i in range(nb)]
        seen = {}

        def add(s, t, w=None):
            # at most two edges per (source variable, target variable): parallel edges add up (their folded weight is bound
            # to the sum of the two symbols)
            if seen.get((s, t), 0) >= 2:
                return
            seen[(s, t)] = seen.get((s, t), 0) + 1
            for _skip in range(len(edges) % 5):
                fp()          # keep weights out of arithmetic progressions (distinct sums)
            edges.append(EdgeSpec(s, t, fp() if w is None else w))
        if pat == 'dense':
            for s in A:
                for t in A:
                    add(f"{s}/o1/x", f"{t}/o1/u")
        elif pat == 'sparse':
            for s in A:
                for t in A:
                    if rnd.random() < 0.3:
                        add(f"{s}/o1/x", f"{t}/o1/u")
        elif pat == 'diag':
            for s in A:
                add(f"{s}/o1/x", f"{s}/o1/u")
        elif pat == 'ring':
            for i, s in enumerate(A):
                add(f"{s}/o1/x", f"{A[(i + 1) % na]}/o1/w")
        elif pat == 'fanin':
            for t in A[:max(1, na // 2)]:
                for s in A:
                    add(f"{s}/o1/x", f"{t}/o1/u", F(3, 2) if rnd.random() < 0.3 else None)
        else:
            for s in A:
                for t in A:
                    if rnd.random() < 0.5:
                        add(f"{s}/o1/x", f"{t}/o1/{rnd.choice('uw')}")
        # cross-type edges
        for s in B:
            for t in A:
                if rnd.random() < 0.5:
                    add(f"{s}/rpo/a", f"{t}/o1/{rnd.choice('uw')}")
                if rnd.random() < 0.2:
                    # a second variable of the same source node into the same target variable, or a parallel edge
                    add(f"{s}/rpo/{rnd.choice('ab')}", f"{t}/o1/u")
        for s in A:
            for t in B:
                if rnd.random() < 0.5:
                    add(f"{s}/o1/x", f"{t}/rpo/r_in")
        for s in B:
            for t in B:
                if rnd.random() < 0.3:
                    add(f"{s}/rpo/b", f"{t}/rpo/r_in")
        out.append((f"FV:{seed}:{k}:{pat}:{na}+{nb}:eq={equal}",
                    ModelSpec('m', ops, nodes, edges, note=f"vectorization pattern {pat}, {na} two-input nodes, {nb} rpo "
                                                           f"nodes, equal params={equal}")))
    return out


def fam_projections(seed=0, n=12, sizes=(4, 5, 6)):
    """C01/C04: projections inside one group of structurally identical nodes, meant to be compiled with the matrix branch
    (default matrix_sparseness) AND with the index branch forced (matrix_sparseness=1.0): one-to-one permutations
    (incl. non-identity ones that fix the first and the last node), partial permutations, a ring with one extra edge
    (two same-type inputs on one target), fan-out of one source, reversed order."""
    rnd = random.Random(seed + 77)
    out = []
    pats = ['perm_fixed_ends', 'perm', 'ring_plus', 'partial', 'fanout', 'reverse', 'two_rings']
    for k in range(n):
        fp = FP()
        ops = {'o1': op_two_inputs(fp)}
        na = sizes[k % len(sizes)]
        A = [f"a{i}" for i in range(na)]
        nodes = {a: NodeSpec(['o1'], _node_overrides(fp, ops, ['o1'])) for a in A}
        pat = pats[k % len(pats)]
        pairs = []
        if pat == 'perm_fixed_ends':
            inner = list(range(1, na - 1))
            while True:
                sh = inner[:]
                rnd.shuffle(sh)
                if sh != inner:
                    break
            perm = [0] + sh + [na - 1]
            pairs = [(i, perm[i], 'u') for i in range(na)]
        elif pat == 'perm':
            perm = list(range(na))
            rnd.shuffle(perm)
            pairs = [(i, perm[i], 'u') for i in range(na)]
        elif pat == 'ring_plus':
            pairs = [(i, (i + 1) % na, 'u') for i in range(na)] + [(na - 1, 1, 'u')]
        elif pat == 'partial':
            src = rnd.sample(range(na), na - 1)
            tgt = rnd.sample(range(na), na - 1)
            pairs = [(a, b, 'w') for a, b in zip(src, tgt)]
        elif pat == 'fanout':
            pairs = [(1, j, 'u') for j in range(na)]
        elif pat == 'reverse':
            pairs = [(i, na - 1 - i, 'w') for i in range(na)]
        else:
            pairs = [(i, (i + 1) % na, 'u') for i in range(na)] + [(i, (i - 1) % na, 'w') for i in range(na)]
        if k % 2 and pat in ('perm_fixed_ends', 'perm', 'reverse', 'two_rings'):
            # the same projection written down in the order of its TARGETS: the source indices are then a permutation
            pairs = sorted(pairs, key=lambda p_: (p_[2], p_[1]))
        edges = [EdgeSpec(f"a{i}/o1/x", f"a{j}/o1/{v}", fp()) for i, j, v in pairs]
        if k % 3 == 2:
            # plus a node that is the only one of its type and projects to every node of the group (scalar source)
            ops['src'] = op_source(fp)
            nodes['s0'] = NodeSpec(['src'], _node_overrides(fp, ops, ['src']))
            other = 'w' if all(v == 'u' for _, _, v in pairs) else ('u' if all(v == 'w' for _, _, v in pairs) else None)
            if other:
                edges += [EdgeSpec('s0/src/s', f"a{j}/o1/{other}", fp()) for j in range(na)]
        out.append((f"FP:{seed}:{k}:{pat}:{na}",
                    ModelSpec('m', ops, nodes, edges, note=f"projection pattern {pat} over {na} identical nodes: "
                                                           f"{[(i, j) for i, j, _ in pairs]}")))
    return out


def fam_derived():
    """C15: operators derived through `base:` with equation edits; identifiers contain one another (r, rr, r_in,
    m_in2).  Returns (key, spec, derived_yaml) where the spec holds the operator the edits must produce when they act
    on whole identifiers only."""
    out = []

    def base_op(fp, name='bop'):
        # x' = (r - x)/tau + rr*r_in + m_in2
        e = X.add(X.add(X.div(X.sub(V('r'), V('x')), V('tau')), X.mul(V('rr'), V('r_in'))), V('m_in2'))
        return OpSpec(name, [('x', 'de', e)],
                      {'x': ('state', fp()), 'r': ('input', fp()), 'tau': ('const', fp()), 'rr': ('const', fp()),
                       'r_in': ('const', fp()), 'm_in2': ('const', fp())}, output='x')

    variants = []
    # 1. replace r -> q (must not touch rr, r_in)
    variants.append(('replace_r', "    replace:\n      r: q", lambda fp, b: (
        [('x', 'de', X.add(X.add(X.div(X.sub(V('q'), V('x')), V('tau')), X.mul(V('rr'), V('r_in'))), V('m_in2')))],
        {'q': ('input', fp())}, ['r']), "    q: input({q})"))
    # 2. replace m -> z must not touch m_in2 ; replace r_in -> g
    variants.append(('replace_r_in', "    replace:\n      r_in: g\n      m: zz", lambda fp, b: (
        [('x', 'de', X.add(X.add(X.div(X.sub(V('r'), V('x')), V('tau')), X.mul(V('rr'), V('g'))), V('m_in2')))],
        {'g': ('const', fp())}, ['r_in']), "    g: {g}"))
    # 3. remove a term and append another
    variants.append(('remove_append', "    remove:\n      - m_in2\n    append: \"- k2*x\"", lambda fp, b: (
        [('x', 'de', X.sub(X.add(X.div(X.sub(V('r'), V('x')), V('tau')), X.mul(V('rr'), V('r_in'))), X.mul(V('k2'), V('x'))))],
        {'k2': ('const', fp())}, ['m_in2']), "    k2: {k2}"))
    # 4. add an equation
    variants.append(('add_eq', "    add:\n      - \"z' = x - z*rr\"", lambda fp, b: (
        b.eqs + [('z', 'de', X.sub(V('x'), X.mul(V('z'), V('rr'))))],
        {'z': ('state', fp())}, []), "    z: variable({z})"))
    # 5. replace x (also on the left-hand side: x' -> the derivative notation keeps the prime)
    variants.append(('replace_rr', "    replace:\n      rr: (rr + r)", lambda fp, b: (
        [('x', 'de', X.add(X.add(X.div(X.sub(V('r'), V('x')), V('tau')), X.mul(X.add(V('rr'), V('r')), V('r_in'))), V('m_in2')))],
        {}, []), ""))
    # 6. replace and add in one edit: the replacement acts on the inherited equations, NOT on the added one
    variants.append(('replace_and_add', "    replace:\n      r_in: g\n    add:\n      - \"z' = x - z*r_in\"", lambda fp, b: (
        [('x', 'de', X.add(X.add(X.div(X.sub(V('r'), V('x')), V('tau')), X.mul(V('rr'), V('g'))), V('m_in2'))),
         ('z', 'de', X.sub(V('x'), X.mul(V('z'), V('r_in'))))],
        {'g': ('const', fp()), 'z': ('state', fp())}, []), "    g: {g}\n    z: variable({z})"))
    for name, edit_yaml, mk, var_yaml in variants:
        for chain in (1, 2):
            fp = FP()
            b = base_op(fp)
            eqs, newvars, dropped = mk(fp, b)
            dvars = {k: v for k, v in b.vars.items() if k not in dropped}
            dvars.update(newvars)
            dop = OpSpec('dop', eqs, dvars, output='x')
            ops = {'bop': b, 'dop': dop}
            nodes = {'n0': NodeSpec(['bop'], _node_overrides(fp, ops, ['bop'])),
                     'n1': NodeSpec(['dop'], _node_overrides(fp, ops, ['dop']))}
            edges = [EdgeSpec('n0/bop/x', 'n1/dop/' + ('q' if name == 'replace_r' else 'r'), fp()),
                     EdgeSpec('n1/dop/x', 'n0/bop/r', fp())]
            vy = var_yaml.format(**{k: float(v[1]) for k, v in newvars.items()}) if var_yaml else ''
            if chain == 1:
                text = f"dop:\n  base: bop\n  equations:\n{edit_yaml}\n" + (f"  variables:\n{vy}\n" if vy else '')
            else:
                # two-step chain: an intermediate template that changes nothing but a default value
                text = (f"mid:\n  base: bop\n  variables:\n    tau: {float(b.vars['tau'][1])}\n\n"
                        f"dop:\n  base: mid\n  equations:\n{edit_yaml}\n" + (f"  variables:\n{vy}\n" if vy else ''))
            out.append((f"FD:{name}:chain={chain}", ModelSpec('m', ops, nodes, edges, note=f"derived operator {name}"),
                        {'dop': text}))
    return out


def fam_discrete_delays(seed=0, n=16, dt=F(1, 4), max_steps=4):
    """C09: mixtures of delayed and undelayed edges; delays rounding to 2..max_steps steps (incl. values that are not
    multiples of dt); several delays per source / per target; one or two node types; algebraic sources."""
    rnd = random.Random(seed)
    out = []
    for k in range(n):
        fp = FP()
        ops = {'li': op_leaky(fp), 'o1': op_two_inputs(fp)}
        ops['li'].vars['u'] = ('input', F(0))
        ops['o1'].vars['u'] = ('input', F(0))
        ops['o1'].vars['w'] = ('input', F(0))
        na = rnd.randint(2, 3)
        nb = rnd.randint(0, 2) if k % 2 else 0
        nodes = {}
        for i in range(na):
            nodes[f"a{i}"] = NodeSpec(['li'], _node_overrides(fp, ops, ['li']))
        for i in range(nb):
            nodes[f"b{i}"] = NodeSpec(['o1'], _node_overrides(fp, ops, ['o1']))
        names = list(nodes)
        edges = []
        seen = set()
        ne = rnd.randint(2, 5)
        tries = 0
        while len(edges) < ne and tries < 50:
            tries += 1
            s, t = rnd.choice(names), rnd.choice(names)
            sv = 'li/x' if s.startswith('a') else 'o1/x'
            tv_ = 'li/u' if t.startswith('a') else rnd.choice(['o1/u', 'o1/w'])
            if (s, f"{t}/{tv_}") in seen:
                continue
            seen.add((s, f"{t}/{tv_}"))
            r = rnd.random()
            if r < 0.3:
                d = None
            else:
                steps = rnd.randint(2, max_steps)
                d = dt * steps + rnd.choice([F(0), F(0), dt / 4, -dt / 4, dt * 2 / 5])
            edges.append(EdgeSpec(f"{s}/{sv}", f"{t}/{tv_}", fp(), delay=d))
        if not any(e.delay is not None for e in edges):
            edges[0].delay = dt * 2
        out.append((f"F9:{seed}:{k}", ModelSpec('m', ops, nodes, edges, note="discrete delays")))
    return out


def fam_discrete_delays_fixed():
    """hand-picked delay shapes named in the property"""
    out = []
    dt = F(1, 4)

    def mk(edges_fn, note, n=3):
        fp = FP()
        ops = {'li': op_leaky(fp)}
        ops['li'].vars['u'] = ('input', F(0))
        nodes = {f"a{i}": NodeSpec(['li'], _node_overrides(fp, ops, ['li'])) for i in range(n)}
        return ModelSpec('m', ops, nodes, edges_fn(fp), note=note)
    E = EdgeSpec
    out.append(("F9x:mixed-fanout", mk(lambda fp: [E('a0/li/x', 'a1/li/u', fp(), delay=dt * 2),
                                                   E('a0/li/x', 'a2/li/u', fp())], "delayed + undelayed edge out of one source")))
    out.append(("F9x:two-delays-one-source", mk(lambda fp: [E('a0/li/x', 'a1/li/u', fp(), delay=dt * 2),
                                                            E('a0/li/x', 'a2/li/u', fp(), delay=dt * 3)], "two delays, one source")))
    out.append(("F9x:two-delays-one-target", mk(lambda fp: [E('a0/li/x', 'a2/li/u', fp(), delay=dt * 2),
                                                            E('a1/li/x', 'a2/li/u', fp(), delay=dt * 4)], "two delays, one target")))
    out.append(("F9x:ring", mk(lambda fp: [E('a0/li/x', 'a1/li/u', fp(), delay=dt * 2), E('a1/li/x', 'a2/li/u', fp(), delay=dt * 2),
                                           E('a2/li/x', 'a0/li/u', fp(), delay=dt * 3)], "ring with delays")))
    out.append(("F9x:self", mk(lambda fp: [E('a0/li/x', 'a0/li/u', fp(), delay=dt * 3), E('a1/li/x', 'a0/li/u', fp())],
                               "delayed self connection + undelayed input")))
    out.append(("F9x:undelayed-other-source", mk(lambda fp: [E('a0/li/x', 'a1/li/u', fp(), delay=dt * 2),
                                                             E('a1/li/x', 'a0/li/u', fp())], "undelayed edge from a node without delayed edges")))
    def mk_src(edges_fn, note, n=3):
        fp = FP()
        ops = {'li': op_leaky(fp), 'src': op_source(fp)}
        ops['li'].vars['u'] = ('input', F(0))
        nodes = {'s0': NodeSpec(['src'], _node_overrides(fp, ops, ['src']))}
        nodes.update({f"a{i}": NodeSpec(['li'], _node_overrides(fp, ops, ['li'])) for i in range(n)})
        return ModelSpec('m', ops, nodes, edges_fn(fp), note=note)
    out.append(("F9x:scalar-source-two-delays", mk_src(lambda fp: [E('s0/src/s', 'a0/li/u', fp(), delay=dt * 2),
                                                                   E('s0/src/s', 'a1/li/u', fp(), delay=dt * 3)],
                                                       "the only node of its type feeds two nodes of one type with different delays", n=2)))
    out.append(("F9x:scalar-source-three-delays", mk_src(lambda fp: [E('s0/src/s', 'a0/li/u', fp(), delay=dt * 3),
                                                                     E('s0/src/s', 'a1/li/u', fp(), delay=dt * 2),
                                                                     E('s0/src/s', 'a2/li/u', fp(), delay=dt * 4)],
                                                         "scalar source, three delays, not in ascending order")))
    out.append(("F9x:same-delay-permuted-sources", mk(lambda fp: [E('a1/li/x', 'a0/li/u', fp(), delay=dt * 3),
                                                                  E('a0/li/x', 'a1/li/u', fp(), delay=dt * 3),
                                                                  E('a2/li/x', 'a2/li/u', fp(), delay=dt * 3)],
                                                      "one delay for every unit of the source vector, edges listed from a1, a0, a2")))
    out.append(("F9x:same-delay-repeated-source", mk(lambda fp: [E('a0/li/x', 'a1/li/u', fp(), delay=dt * 2),
                                                                 E('a0/li/x', 'a2/li/u', fp(), delay=dt * 2),
                                                                 E('a2/li/x', 'a0/li/u', fp(), delay=dt * 2)],
                                                     "three edges with one delay, a0 used twice, a1 never")))
    out.append(("F9x:parallel-delayed", mk(lambda fp: [E('a0/li/x', 'a1/li/u', fp(), delay=dt * 2),
                                                       E('a0/li/x', 'a1/li/u', fp(), delay=dt * 3),
                                                       E('a1/li/x', 'a2/li/u', fp(), delay=dt * 2)],
                                           "two parallel connections a0 -> a1 with different delays")))
    out.append(("F9x:parallel-delayed-scalar-source", mk_src(lambda fp: [E('s0/src/s', 'a0/li/u', fp(), delay=dt * 3),
                                                                         E('s0/src/s', 'a0/li/u', fp(), delay=dt * 2),
                                                                         E('s0/src/s', 'a0/li/u', fp(), delay=dt * 3),
                                                                         E('s0/src/s', 'a1/li/u', fp(), delay=dt * 3)],
                                                             "scalar source; three parallel connections into a0 (delays 3, 2, 3) and "
                                                             "one into a1 (delay 3): slots share a delay", n=2)))
    def mk_ab(edges_fn, note):
        fp = FP()
        ops = {'li': op_leaky(fp), 'o1': op_two_inputs(fp)}
        for o, v in (('li', 'u'), ('o1', 'u'), ('o1', 'w')):
            ops[o].vars[v] = ('input', F(0))
        nodes = {f"a{i}": NodeSpec(['li'], _node_overrides(fp, ops, ['li'])) for i in range(3)}
        nodes.update({f"b{i}": NodeSpec(['o1'], _node_overrides(fp, ops, ['o1'])) for i in range(2)})
        return ModelSpec('m', ops, nodes, edges_fn(fp), note=note)
    out.append(("F9x:three-groups", mk_ab(lambda fp: [E('a0/li/x', 'a1/li/u', fp(), delay=dt * 3),
                                                      E('a1/li/x', 'a2/li/u', fp(), delay=dt * 2),
                                                      E('a2/li/x', 'a0/li/u', fp()),
                                                      E('a2/li/x', 'b0/o1/u', fp(), delay=dt * 4),
                                                      E('a0/li/x', 'b1/o1/u', fp(), delay=dt * 2),
                                                      E('a1/li/x', 'b1/o1/w', fp(), delay=dt * 3),
                                                      E('b0/o1/x', 'a0/li/u', fp()),
                                                      E('b1/o1/x', 'a2/li/u', fp(), delay=dt * 2)],
                                          "three edge groups leave one vectorized variable: delayed to its own type, "
                                          "undelayed to its own type, delayed to another type")))
    out.append(("F9x:rounding", mk(lambda fp: [E('a0/li/x', 'a1/li/u', fp(), delay=dt * F(12, 5)),
                                               E('a1/li/x', 'a2/li/u', fp(), delay=dt * F(13, 5))], "d/dt = 2.4 and 2.6")))
    return out


GAMMA_PAIRS = [(F(1, 2), F(1, 4)), (F(1, 2), F(1, 2)), (F(1), F(2, 3)), (F(1), F(3, 5)), (F(1), F(1, 2)),
               (F(3, 4), F(1, 4)), (F(3, 2), F(3, 4)), (F(2), F(1))]


def fam_gamma(seed=0, n=12, max_order=4):
    """C11: edges with (delay, spread): orders round((d/s)^2) in 1..max_order, pairs that round to the same order with
    different rates, edges sharing sources/targets, mixed with undelayed edges."""
    rnd = random.Random(seed)
    pairs = [p for p in GAMMA_PAIRS if round((p[0] / p[1]) ** 2) <= max_order]
    out = []
    for k in range(n):
        fp = FP()
        ops = {'li': op_leaky(fp), 'sg': op_sigmoid_alg(fp, 'sg', m='m', v='x')}
        ops['li'].vars['u'] = ('input', F(0))
        na = rnd.randint(2, 3)
        nodes = {}
        for i in range(na):
            nodes[f"a{i}"] = NodeSpec(['li', 'sg'], _node_overrides(fp, ops, ['li', 'sg']))
        names = list(nodes)
        edges, seen = [], set()
        ne = rnd.randint(1, 4)
        tries = 0
        while len(edges) < ne and tries < 40:
            tries += 1
            s, t = rnd.choice(names), rnd.choice(names)
            if (s, t) in seen:
                continue
            seen.add((s, t))
            src = f"{s}/sg/m" if k % 2 else f"{s}/li/x"
            if rnd.random() < 0.2 and edges:
                edges.append(EdgeSpec(src, f"{t}/li/u", fp()))
            else:
                d, sp = rnd.choice(pairs)
                edges.append(EdgeSpec(src, f"{t}/li/u", fp(), delay=d, spread=sp))
        out.append((f"F11:{seed}:{k}", ModelSpec('m', ops, nodes, edges, note="gamma-kernel edges")))
    return out


def fam_gamma_fixed():
    out = []
    E = EdgeSpec

    def mk(edges_fn, note, n=3):
        fp = FP()
        ops = {'li': op_leaky(fp)}
        ops['li'].vars['u'] = ('input', F(0))
        nodes = {f"a{i}": NodeSpec(['li'], _node_overrides(fp, ops, ['li'])) for i in range(n)}
        return ModelSpec('m', ops, nodes, edges_fn(fp), note=note)
    out.append(("F11x:same-order-different-rate", mk(lambda fp: [E('a0/li/x', 'a1/li/u', fp(), delay=F(1, 2), spread=F(1, 4)),
                                                                 E('a0/li/x', 'a2/li/u', fp(), delay=F(1), spread=F(1, 2))],
                                                     "order 4 rate 8 and order 4 rate 4 out of one source")))
    out.append(("F11x:different-order", mk(lambda fp: [E('a0/li/x', 'a1/li/u', fp(), delay=F(1), spread=F(2, 3)),
                                                       E('a0/li/x', 'a2/li/u', fp(), delay=F(1), spread=F(3, 5))],
                                           "orders 2 and 3, same delay")))
    out.append(("F11x:shared-target", mk(lambda fp: [E('a0/li/x', 'a2/li/u', fp(), delay=F(1, 2), spread=F(1, 4)),
                                                     E('a1/li/x', 'a2/li/u', fp(), delay=F(1), spread=F(2, 3))],
                                         "two kernels into one target")))
    out.append(("F11x:mixed", mk(lambda fp: [E('a0/li/x', 'a1/li/u', fp(), delay=F(1, 2), spread=F(1, 2)),
                                             E('a0/li/x', 'a2/li/u', fp()), E('a1/li/x', 'a0/li/u', fp())],
                                 "order-1 kernel + undelayed edges")))
    A_, B_ = (F(1), F(1, 2)), (F(1, 2), F(1, 2))
    out.append(("F11x:kernels-AAB", mk(lambda fp: [E('a0/li/x', 'a1/li/u', fp(), delay=A_[0], spread=A_[1]),
                                                   E('a1/li/x', 'a2/li/u', fp(), delay=A_[0], spread=A_[1]),
                                                   E('a0/li/x', 'a3/li/u', fp(), delay=B_[0], spread=B_[1])],
                                       "one vectorized source variable, kernel groups [A, A, B]", n=4)))
    out.append(("F11x:kernels-ABA", mk(lambda fp: [E('a0/li/x', 'a1/li/u', fp(), delay=A_[0], spread=A_[1]),
                                                   E('a0/li/x', 'a3/li/u', fp(), delay=F(1), spread=F(2, 3)),
                                                   E('a1/li/x', 'a2/li/u', fp(), delay=A_[0], spread=A_[1]),
                                                   E('a2/li/x', 'a0/li/u', fp(), delay=F(1), spread=F(2, 3))],
                                       "kernel groups [A, B, A, B] with different orders", n=4)))

    out.append(("F11x:close-rates", mk(lambda fp: [E('a0/li/x', 'a1/li/u', fp(), delay=F(40), spread=F(20)),
                                                   E('a0/li/x', 'a2/li/u', fp(), delay=F(41), spread=F(20)),
                                                   E('a1/li/x', 'a0/li/u', fp(), delay=F(10), spread=F(4))],
                                       "two kernels of one order out of one source whose rates 4/40 and 4/41 differ by "
                                       "less than 0.005 (time in ms)")))
    out.append(("F11x:close-rates-2", mk(lambda fp: [E('a0/li/x', 'a1/li/u', fp(), delay=F(2000), spread=F(1000)),
                                                     E('a1/li/x', 'a2/li/u', fp(), delay=F(2001), spread=F(1000))],
                                         "rates 4/2000 and 4/2001 out of one vectorized source variable")))

    out.append(("F11x:neglected-delay-with-spread", mk(lambda fp: [E('a0/li/x', 'a1/li/u', fp(), delay=F(1, 8), spread=F(1, 16)),
                                                                   E('a1/li/x', 'a2/li/u', fp(), delay=F(1), spread=F(1, 2))],
                                                       "a delay of half a step (neglected) that carries a spread, next to a "
                                                       "real kernel out of the same vectorized variable")))
    out.append(("F11x:parallel-kernels", mk(lambda fp: [E('a0/li/x', 'a1/li/u', fp(), delay=A_[0], spread=A_[1]),
                                                        E('a0/li/x', 'a1/li/u', fp(), delay=B_[0], spread=B_[1]),
                                                        E('a1/li/x', 'a2/li/u', fp(), delay=A_[0], spread=A_[1]),
                                                        E('a0/li/x', 'a2/li/u', fp(), delay=F(1), spread=F(2, 3))],
                                            "two parallel connections a0 -> a1 with different kernels, and a later edge "
                                            "out of the same variable with a third kernel")))

    def mk_perm(order, note):
        m = mk(lambda fp: [E('a0/li/x', 'a1/li/u', fp(), delay=A_[0], spread=A_[1]),
                           E('a1/li/x', 'a2/li/u', fp(), delay=A_[0], spread=A_[1]),
                           E('a2/li/x', 'a0/li/u', fp(), delay=A_[0], spread=A_[1])], note)
        names = list(m.nodes)
        return ModelSpec('m', m.ops, {names[i]: m.nodes[names[i]] for i in order}, m.edges, note=note)
    out.append(("F11x:ring-decl-120", mk_perm([1, 2, 0], "ring of one kernel, nodes declared a1, a2, a0")))
    out.append(("F11x:ring-decl-210", mk_perm([2, 1, 0], "ring of one kernel, nodes declared a2, a1, a0")))
    out.append(("F11x:mixed-spread-then-discrete", mk(lambda fp: [E('a0/li/x', 'a1/li/u', fp(), delay=F(1, 2), spread=F(1, 4)),
                                                                  E('a1/li/x', 'a2/li/u', fp(), delay=F(1, 2)),
                                                                  E('a2/li/x', 'a0/li/u', fp())],
                                                      "a gamma-kernel edge and a plain delayed edge out of one vectorized source variable")))
    out.append(("F11x:mixed-discrete-then-spread", mk(lambda fp: [E('a0/li/x', 'a1/li/u', fp(), delay=F(1, 2)),
                                                                  E('a1/li/x', 'a2/li/u', fp(), delay=F(1, 2), spread=F(1, 4)),
                                                                  E('a2/li/x', 'a0/li/u', fp())],
                                                      "a plain delayed edge and a gamma-kernel edge out of one vectorized source variable")))
    def mk_src(edges_fn, note, n=2):
        fp = FP()
        ops = {'li': op_leaky(fp), 'src': op_source(fp)}
        ops['li'].vars['u'] = ('input', F(0))
        nodes = {'s0': NodeSpec(['src'], _node_overrides(fp, ops, ['src']))}
        nodes.update({f"a{i}": NodeSpec(['li'], _node_overrides(fp, ops, ['li'])) for i in range(n)})
        return ModelSpec('m', ops, nodes, edges_fn(fp), note=note)
    out.append(("F11x:scalar-source-same-kernel", mk_src(lambda fp: [E('s0/src/s', 'a0/li/u', fp(), delay=F(1), spread=F(1, 2)),
                                                                     E('s0/src/s', 'a1/li/u', fp(), delay=F(1), spread=F(1, 2))],
                                                         "the only node of its type feeds two edges with one kernel")))
    out.append(("F11x:scalar-source-two-kernels", mk_src(lambda fp: [E('s0/src/s', 'a0/li/u', fp(), delay=F(1), spread=F(1, 2)),
                                                                     E('s0/src/s', 'a1/li/u', fp(), delay=F(1, 2), spread=F(1, 2))],
                                                         "the only node of its type feeds two different kernels")))
    out.append(("F11x:identical-kernels", mk(lambda fp: [E('a0/li/x', 'a1/li/u', fp(), delay=F(1), spread=F(1, 2)),
                                                         E('a0/li/x', 'a2/li/u', fp(), delay=F(1), spread=F(1, 2)),
                                                         E('a1/li/x', 'a0/li/u', fp(), delay=F(1), spread=F(1, 2))],
                                             "three edges with the same kernel")))
    return out


def fam_dde(seed=0, n=10):
    """C10: past(x, tau) / x(t - tau) terms (several delays per variable, several delayed variables, the delayed
    variable not being the first state) and delayed edges under an adaptive solver."""
    rnd = random.Random(seed)
    out = []
    for k in range(n):
        fp = FP()
        notation = 'call' if k % 2 else 'past'
        d1, d2 = rnd.choice([F(1, 2), F(3, 4), F(1), F(5, 4)]), rnd.choice([F(3, 8), F(3, 2), F(2), F(1)])
        variant = k % 4
        if variant == 0:      # one variable, one delay
            e1 = X.add(X.mul(X.neg(V('k')), V('x')), X.mul(V('g'), X.call('tanh', X.past('x', V('tau')))))
            eqs = [('x', 'de', e1)]
            vars_ = {'x': ('state', fp()), 'k': ('const', fp()), 'g': ('const', fp()), 'tau': ('const', d1)}
        elif variant == 1:    # second state variable delayed, two delays of it
            e1 = X.add(X.mul(X.neg(V('k')), V('x')), X.mul(V('g'), X.call('tanh', X.past('z', V('tau')))))
            e2 = X.sub(V('x'), X.mul(V('z'), X.past('z', V('tau2'))))
            eqs = [('x', 'de', e1), ('z', 'de', e2)]
            vars_ = {'x': ('state', fp()), 'z': ('state', fp()), 'k': ('const', fp()), 'g': ('const', fp()),
                     'tau': ('const', d1), 'tau2': ('const', d2)}
        elif variant == 2:    # both variables delayed, same delay constant used twice
            e1 = X.sub(X.past('z', V('tau')), X.mul(V('k'), V('x')))
            e2 = X.sub(X.mul(V('g'), X.past('x', V('tau'))), V('z'))
            eqs = [('x', 'de', e1), ('z', 'de', e2)]
            vars_ = {'x': ('state', fp()), 'z': ('state', fp()), 'k': ('const', fp()), 'g': ('const', fp()),
                     'tau': ('const', d1)}
        else:                 # delayed and undelayed occurrence of the same variable in one product, numeric delay
            e1 = X.add(X.mul(X.neg(V('k')), X.mul(V('x'), X.past('x', C(d2)))), V('g'))
            eqs = [('x', 'de', e1)]
            vars_ = {'x': ('state', fp()), 'k': ('const', fp()), 'g': ('const', fp())}
        if variant == 3 and notation == 'call' and k % 8 == 7:
            notation = 'call-split'      # x(t - a - b): a numeric delay written as two subtractions
        op = OpSpec('dd', eqs, vars_, output='x', style={'past': notation})
        li = op_leaky(fp)
        li.vars['u'] = ('input', F(0))
        ops = {'dd': op, 'li': li}
        nodes = {'n0': NodeSpec(['dd'], {}), 'n1': NodeSpec(['li'], _node_overrides(fp, ops, ['li'])),
                 'n2': NodeSpec(['li'], _node_overrides(fp, ops, ['li']))}
        edges = [EdgeSpec('n0/dd/x', 'n1/li/u', fp())]
        if k % 3 == 0:
            edges.append(EdgeSpec('n1/li/x', 'n2/li/u', fp(), delay=rnd.choice([F(1), F(3, 4), F(3, 2)])))
            edges.append(EdgeSpec('n2/li/x', 'n1/li/u', fp(), delay=rnd.choice([F(1, 2), F(1), F(2)])))
        out.append((f"F10:{seed}:{k}:{notation}:v{variant}", ModelSpec('m', ops, nodes, edges, note="DDE model")))
    return out


def fam_dde_equal_delays():
    """C10: two delay parameters of one variable that have the same declared value (they stay two parameters: the
    compiled function may be called with other values).  returns key -> (spec, spec with tau2 changed, {arg suffix: value})"""
    import copy
    out = []
    for notation in ('past', 'call'):
        fp = FP()
        d = F(3, 4)
        e1 = X.sub(X.mul(X.neg(V('k')), X.past('x', V('tau'))), X.mul(V('g'), X.past('x', V('tau2'))))
        e2 = X.sub(X.past('x', V('tau2')), V('z'))
        op = OpSpec('dd', [('x', 'de', e1), ('z', 'de', e2)],
                    {'x': ('state', fp()), 'z': ('state', fp()), 'k': ('const', fp()), 'g': ('const', fp()),
                     'tau': ('const', d), 'tau2': ('const', d)}, output='x', style={'past': notation})
        spec = ModelSpec('m', {'dd': op}, {'p': NodeSpec(['dd'], {})}, [], note="equal-valued delay parameters")
        s2 = copy.deepcopy(spec)
        s2.nodes['p'].overrides[('dd', 'tau2')] = F(5, 4)
        out.append((f"F10q:equal-delay-values:{notation}", (spec, s2, {'/dd/tau2': F(5, 4)})))
    return out


def fam_dde_edges_fixed():
    """C10: delayed edges under an adaptive solver (history look-ups): fan-out of one source with different delays,
    several sources, fan-in"""
    E = EdgeSpec

    def mk(n, edges_fn, note):
        fp = FP()
        ops = {'li': op_leaky(fp)}
        ops['li'].vars['u'] = ('input', F(0))
        nodes = {f"a{i}": NodeSpec(['li'], _node_overrides(fp, ops, ['li'])) for i in range(n)}
        return ModelSpec('m', ops, nodes, edges_fn(fp), note=note)

    def mk_src(n, edges_fn, note):
        fp = FP()
        ops = {'li': op_leaky(fp), 'src': op_source(fp)}
        ops['li'].vars['u'] = ('input', F(0))
        nodes = {'s0': NodeSpec(['src'], _node_overrides(fp, ops, ['src']))}
        nodes.update({f"a{i}": NodeSpec(['li'], _node_overrides(fp, ops, ['li'])) for i in range(n)})
        return ModelSpec('m', ops, nodes, edges_fn(fp), note=note)
    return [
        ("F10x:fanout-two-delays", mk(3, lambda fp: [E('a0/li/x', 'a1/li/u', fp(), delay=F(1, 2)),
                                                     E('a0/li/x', 'a2/li/u', fp(), delay=F(1))], "one source, two delays")),
        ("F10x:fanout-mixed", mk(4, lambda fp: [E('a0/li/x', 'a1/li/u', fp(), delay=F(1, 2)),
                                                E('a1/li/x', 'a2/li/u', fp(), delay=F(1)),
                                                E('a0/li/x', 'a3/li/u', fp(), delay=F(3, 2))], "three delays, two sources")),
        ("F10x:fanin-two-delays", mk(3, lambda fp: [E('a0/li/x', 'a2/li/u', fp(), delay=F(1, 2)),
                                                    E('a1/li/x', 'a2/li/u', fp(), delay=F(1))], "two sources into one target")),
        ("F10x:ring", mk(3, lambda fp: [E('a0/li/x', 'a1/li/u', fp(), delay=F(1, 2)), E('a1/li/x', 'a2/li/u', fp(), delay=F(1)),
                                        E('a2/li/x', 'a0/li/u', fp(), delay=F(3, 4))], "ring, three delays")),
        ("F10x:scalar-source-two-delays", mk_src(2, lambda fp: [E('s0/src/s', 'a0/li/u', fp(), delay=F(1, 2)),
                                                                E('s0/src/s', 'a1/li/u', fp(), delay=F(1))],
                                                 "the only node of its type is read with two delays")),
        ("F10x:integer-delays", mk(3, lambda fp: [E('a0/li/x', 'a1/li/u', fp(), delay=F(1)),
                                                  E('a1/li/x', 'a2/li/u', fp(), delay=F(2))],
                                   "delays of 1 and 2 time units (given as Python integers)")),
    ]


def fam_dde_pernode():
    """C10: several structurally identical nodes with an operator-level past() term; the delay parameter is the same /
    differs between the nodes"""
    out = []
    for name, taus, notation in (('same', [F(1, 2), F(1, 2)], 'past'), ('diff', [F(1, 2), F(1)], 'past'),
                                 ('diff3', [F(1), F(1, 2), F(3, 2)], 'call')):
        fp = FP()
        e1 = X.add(X.mul(X.neg(V('k')), V('x')), X.mul(V('g'), X.call('tanh', X.past('x', V('tau')))))
        op = OpSpec('dd', [('x', 'de', e1)], {'x': ('state', fp()), 'k': ('const', fp()), 'g': ('const', fp()),
                                              'tau': ('const', F(1, 2))}, output='x', style={'past': notation})
        nodes = {f"n{i}": NodeSpec(['dd'], {('dd', 'x'): fp(), ('dd', 'k'): fp(), ('dd', 'tau'): t})
                 for i, t in enumerate(taus)}
        out.append((f"F10x:pernode-delay-{name}", ModelSpec('m', {'dd': op}, nodes, [], note=f"per-node delays {taus}")))
    return out
