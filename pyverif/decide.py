"""Decision layer: assumptions (definedness), lemma instantiation for uninterpreted transcendentals,
SMT equality queries with fallbacks, vacuity twins, numeric confirmation of counterexamples."""
import time
import random
import math
from fractions import Fraction

import z3

from . import symx
from .symx import STATS

TIMEOUT_MS = 20000


class Tally:
    def __init__(self):
        self.obligations = 0
        self.unsat = 0
        self.sat = 0
        self.sat_confirmed = 0
        self.sat_spurious = 0
        self.unknown = 0
        self.twins = 0
        self.cvc5_checked = 0
        self.cvc5_disagree = 0
        self.solver_s = 0.0

    def as_dict(self):
        return dict(vars(self))

    def merge(self, d):
        for k, v in (d.items() if isinstance(d, dict) else vars(d).items()):
            setattr(self, k, getattr(self, k) + v)


def subterms(es):
    seen = {}
    stack = list(es)
    while stack:
        t = stack.pop()
        k = t.get_id()
        if k in seen:
            continue
        seen[k] = t
        if z3.is_app(t):
            stack.extend(t.children())
    return list(seen.values())


def side_conditions(es):
    """Definedness assumptions + true lemmas about UFs, instantiated over occurring terms only."""
    subs = subterms(es)
    assumptions, lemmas = [], []
    uf_apps = {}
    for t in subs:
        if not z3.is_app(t):
            continue
        d = t.decl()
        k = d.kind()
        if k == z3.Z3_OP_DIV:
            den = t.arg(1)
            if not z3.is_rational_value(den) and not z3.is_int_value(den):
                assumptions.append(den != 0)
        elif k == z3.Z3_OP_UNINTERPRETED and t.num_args() > 0:
            uf_apps.setdefault(d.name(), []).append(t)
    exps = uf_apps.get('exp', [])
    for t in exps:
        lemmas.append(t > 0)
        # the float constant e (numpy.e, sympy's E after lambdify) denotes Euler's number exp(1) ("reals for floats")
        if z3.is_rational_value(t.arg(0)) and t.arg(0).numerator_as_long() == t.arg(0).denominator_as_long():
            lemmas.append(t == symx.rv(symx.rationalize(math.e)))
    EXP = symx.UF('exp')
    if len(exps) <= 8:
        for i, a in enumerate(exps):
            # exp(u)*exp(-u) = 1 ; exp(u)^2 = exp(2u)
            lemmas.append(a * EXP(-a.arg(0)) == 1)
            lemmas.append(EXP(-a.arg(0)) > 0)
            lemmas.append(a * a == EXP(2 * a.arg(0)))
            lemmas.append(a * a * a == EXP(3 * a.arg(0)))
            for b in exps[i + 1:]:
                lemmas.append(a * b == EXP(a.arg(0) + b.arg(0)))
    # parity (sympy moves signs through odd / even functions): instantiated for pairs of occurring applications
    for fname, sign in (('sin', -1), ('tan', -1), ('tanh', -1), ('sinh', -1), ('arctan', -1), ('arcsin', -1),
                        ('cos', 1), ('cosh', 1)):
        apps = uf_apps.get(fname, [])
        if len(apps) <= 14:
            for i, a in enumerate(apps):
                for b in apps[i + 1:]:
                    lemmas.append(z3.Implies(a.arg(0) == -b.arg(0), a == sign * b))
    # values at 0 (a self-coupling y - y reaches them)
    for fname, v0 in (('sin', 0), ('tan', 0), ('tanh', 0), ('sinh', 0), ('arctan', 0), ('arcsin', 0), ('cos', 1),
                      ('cosh', 1), ('exp', 1)):
        for t in uf_apps.get(fname, []):
            lemmas.append(z3.Implies(t.arg(0) == 0, t == v0))
    for t in uf_apps.get('tanh', []):
        lemmas.append(z3.And(t > -1, t < 1))
    for t in uf_apps.get('cosh', []):
        lemmas.append(t >= 1)
    sins = {str(t.arg(0)): t for t in uf_apps.get('sin', [])}
    for t in uf_apps.get('cos', []):
        lemmas.append(z3.And(t >= -1, t <= 1))
        s = sins.get(str(t.arg(0)))
        if s is not None:
            lemmas.append(s * s + t * t == 1)
    for t in uf_apps.get('sin', []):
        lemmas.append(z3.And(t >= -1, t <= 1))
    for t in uf_apps.get('sqrt', []):
        assumptions.append(t.arg(0) >= 0)
        lemmas.append(z3.And(t >= 0, t * t == t.arg(0)))
    for t in uf_apps.get('log', []):
        assumptions.append(t.arg(0) > 0)
        lemmas.append(EXP(t) == t.arg(0))
    return assumptions, lemmas


def _abstract_ufs(es):
    """Replace every UF application by a fresh real constant (sound for unsat)."""
    table = {}

    def go(t):
        if not z3.is_app(t):
            return t
        d = t.decl()
        ch = [go(c) for c in t.children()]
        if d.kind() == z3.Z3_OP_UNINTERPRETED and t.num_args() > 0:
            key = (d.name(), tuple(str(c) for c in ch))
            if key not in table:
                table[key] = z3.Real(f"__uf{len(table)}")
            return table[key]
        if not ch:
            return t
        return d(*ch)
    return [go(e) for e in es]


def _check(solver):
    t = time.time()
    r = str(solver.check())
    dt = time.time() - t
    STATS['queries'] += 1
    STATS['solver_s'] += dt
    return r, dt


def prove_equal(gen, ref, pc=(), extra_assumptions=(), tally: Tally = None, timeout_ms=None, want_model=True):
    """Is gen == ref for all values (under pc and definedness)?  returns (verdict, model|None)
    verdict in {'unsat','sat','unknown'}; unsat = equal everywhere."""
    timeout_ms = timeout_ms or TIMEOUT_MS
    g, r = symx.lift(gen), symx.lift(ref)
    if tally:
        tally.obligations += 1
    if g.eq(r):
        if tally:
            tally.unsat += 1
        return 'unsat', None
    assumptions, lemmas = side_conditions([g, r] + list(pc))
    base = list(pc) + list(extra_assumptions) + assumptions + lemmas
    s = z3.Solver()
    s.set('timeout', timeout_ms)
    s.add(*base)
    s.add(g != r)
    v, dt = _check(s)
    if tally:
        tally.solver_s += dt
    model = None
    if v == 'sat':
        model = s.model()
    if v == 'unknown':
        # fallback 1: abstract UFs, NRA via nlsat
        ab = _abstract_ufs(base + [g != r])
        s2 = z3.SolverFor('QF_NRA')
        s2.set('timeout', timeout_ms)
        s2.add(*ab)
        v2, dt = _check(s2)
        if tally:
            tally.solver_s += dt
        if v2 == 'unsat':
            v = 'unsat'
        else:
            # fallback 2: clear the problem through simplification of the difference
            d = z3.simplify(g - r, som=True)
            if z3.is_rational_value(d) and d.numerator_as_long() == 0:
                v = 'unsat'
    if tally:
        setattr(tally, v, getattr(tally, v) + 1)
    return v, model


def model_env(model, names, default=None, rng=None):
    """float environment for constant names from a z3 model (missing -> random small rational)"""
    env = {}
    vals = {}
    if model is not None:
        for d in model.decls():
            if d.arity() == 0:
                v = model[d]
                if z3.is_rational_value(v):
                    vals[d.name()] = v.numerator_as_long() / v.denominator_as_long()
                elif z3.is_algebraic_value(v):
                    vals[d.name()] = float(v.approx(20).as_fraction())
    rng = rng or random.Random(0)
    for n in names:
        env[n] = vals.get(n, rng.choice([-1, 1]) * rng.uniform(0.3, 2.0) if default is None else default)
    return env


def numeric_disagreement(gen, ref, model, n_extra=32, seed=0, rel=1e-7, pc=()):
    """Evaluate both terms with the real functions for the UFs at the model point and at random points.
    Returns (env, gen_value, ref_value) for the first point where they differ, else None."""
    g, r = symx.lift(gen), symx.lift(ref)
    names = sorted(symx.free_consts(g) | symx.free_consts(r) | set().union(*[symx.free_consts(p) for p in pc]) if pc
                   else symx.free_consts(g) | symx.free_consts(r))
    rng = random.Random(seed)
    points = []
    if model is not None:
        points.append(model_env(model, names, rng=rng))
    for _ in range(n_extra):
        points.append({n: rng.choice([-1, 1]) * rng.uniform(0.2, 3.0) for n in names})
    for env in points:
        try:
            if pc and not all(symx.evalf(p, env) for p in pc):
                continue
            gv = symx.evalf(g, env)
            rv_ = symx.evalf(r, env)
        except (ZeroDivisionError, ValueError, OverflowError):
            continue
        if not (math.isfinite(gv) and math.isfinite(rv_)):
            continue
        if abs(gv - rv_) > rel * max(1.0, abs(gv), abs(rv_)):
            # conditioning: a point where a 1e-11 relative perturbation of the inputs moves the reference by more
            # than a tenth of the discrepancy says nothing in floating point (e.g. tan of a huge argument)
            try:
                env2 = {k: v * (1 + 1e-11) + 1e-13 for k, v in env.items()}
                r2 = symx.evalf(r, env2)
                g2 = symx.evalf(g, env2)
                if abs(r2 - rv_) > 0.1 * abs(gv - rv_) or abs(g2 - gv) > 0.1 * abs(gv - rv_):
                    continue
            except (ZeroDivisionError, ValueError, OverflowError):
                continue
            return env, gv, rv_
    return None


def twin_check(gen, ref, pc=(), tally: Tally = None):
    """vacuity twin: gen == ref + 1 must be refutable (i.e. `gen != ref+1` is not valid => query for
    equality with ref+1 must come back sat)."""
    v, _ = prove_equal(gen, symx.as_sym(ref) + 1, pc=pc, tally=None, want_model=False)
    if tally:
        tally.twins += 1
    return v == 'sat'


# ---------------------------------------------------------------------------------------------
# cvc5 cross-check (thorough tier)
# ---------------------------------------------------------------------------------------------
def cvc5_cross(gen, ref, pc=(), timeout_ms=20000):
    """re-decide the same query with cvc5 through SMT-LIB2; returns 'unsat' | 'sat' | 'unknown' | 'error'"""
    try:
        import cvc5
    except ImportError:
        return 'error'
    g, r = symx.lift(gen), symx.lift(ref)
    assumptions, lemmas = side_conditions([g, r] + list(pc))
    s = z3.Solver()
    s.add(*pc, *assumptions, *lemmas, g != r)
    smt = s.to_smt2()
    smt = "(set-logic QF_UFNRA)\n" + smt
    try:
        slv = cvc5.Solver()
        slv.setOption('tlimit-per', str(timeout_ms))
        parser = cvc5.InputParser(slv)
        parser.setStringInput(cvc5.InputLanguage.SMT_LIB_2_6, smt, 'q')
        sm = parser.getSymbolManager()
        res = None
        while True:
            cmd = parser.nextCommand()
            if cmd.isNull():
                break
            out = cmd.invoke(slv, sm)
            o = str(out).strip()
            if o in ('sat', 'unsat', 'unknown'):
                res = o
            if '(error' in o:
                return 'error'
        return res or 'unknown'
    except Exception:      # noqa
        return 'error'
