import argparse
import importlib
import os
import sys


def main():
    ap = argparse.ArgumentParser()
    ap.add_argument('prop', nargs='?')
    ap.add_argument('--tier', default=os.environ.get('VERIF_TIER', 'quick'), choices=['quick', 'thorough'])
    ap.add_argument('--seed', type=int, default=int(os.environ.get('VERIF_SEED', '0') or 0))
    ap.add_argument('--replay', default=None)
    ap.add_argument('--only', default=None, help='restrict to program keys containing this substring (debugging)')
    ap.add_argument('-v', '--verbose', action='store_true')
    a = ap.parse_args()
    if a.replay:
        from . import replay
        sys.exit(replay.main(a.replay))
    if not a.prop:
        ap.error('property id required')
    mod = importlib.import_module(f"pyverif.checks.{a.prop.lower()}")
    code = mod.run(tier=a.tier, seed=a.seed, only=a.only, verbose=a.verbose)
    sys.stdout.flush()
    sys.exit(code)


if __name__ == '__main__':
    main()
