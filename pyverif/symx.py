"""symx -- symbolic execution by operator overloading, inside real NumPy object arrays.

Sym wraps a z3 Real term, SymBool a z3 Bool term.  Python code (the text PyRates emits, the real
solver kernels, DDEHistory, helper defs) runs unmodified on Sym values; array work is done by real
NumPy on dtype=object arrays whose cells are Sym.  Branching on a SymBool forks: the harness is
re-executed once per feasible decision sequence (explore()).
"""
import time
import math
from fractions import Fraction

import numpy as np
import z3

# --------------------------------------------------------------------------------------
# statistics shared by everything that talks to the solver
# --------------------------------------------------------------------------------------
STATS = dict(queries=0, solver_s=0.0, forks=0, paths=0)


def reset_stats():
    for k in STATS:
        STATS[k] = 0 if k != 'solver_s' else 0.0


R = z3.RealSort()
INT_BOUND = 12
STRICT_SETITEM = True      # NumPy semantics; the torch library model relaxes it
_UFS = {}


def UF(name, n=1):
    key = (name, n)
    if key not in _UFS:
        _UFS[key] = z3.Function(name, *([R] * (n + 1)))
    return _UFS[key]


def rationalize(x: float) -> Fraction:
    """Exact rational value of a float -- except when the float is precisely the double nearest to a small rational
    (1.0000000000e-01 -> 1/10, 0.3333333333333333 -> 1/3, chain rates n/d): then that rational, which is what the
    compiler meant.  Tolerance: 4 ulp (linspace / n*dt products are a few ulp off the nearest double)."""
    x = float(x)
    fr = Fraction(x)
    if fr.denominator <= 4096:
        return fr
    ap = fr.limit_denominator(4096)
    if ap != 0 and abs(float(ap) - x) <= 4 * math.ulp(x):
        return ap
    return fr


def rv(fr) -> z3.ArithRef:
    fr = Fraction(fr)
    if fr.denominator == 1:
        return z3.RealVal(fr.numerator)
    return z3.RealVal(f"{fr.numerator}/{fr.denominator}")


class SymxError(Exception):
    pass


class Unsupported(SymxError):
    """The code under analysis did something the engine cannot model (inconclusive)."""


def lift(x):
    if isinstance(x, Sym):
        return x.e
    if isinstance(x, (bool, np.bool_)):
        return z3.RealVal(1 if x else 0)
    if isinstance(x, (int, np.integer)):
        return z3.RealVal(int(x))
    if isinstance(x, Fraction):
        return rv(x)
    if isinstance(x, (float, np.floating)):
        xf = float(x)
        if math.isnan(xf) or math.isinf(xf):
            raise Unsupported(f"non-finite constant {xf}")
        return rv(rationalize(xf))
    if isinstance(x, np.ndarray) and x.ndim == 0:
        return lift(x.item())
    if isinstance(x, complex):
        if x.imag == 0:
            return lift(x.real)
        raise Unsupported("complex constant")
    if hasattr(x, 'item') and getattr(x, 'ndim', None) == 0:   # torch / jax 0-d
        return lift(x.item())
    raise TypeError(f"cannot lift {type(x)}")


def _is_arr(o):
    return isinstance(o, np.ndarray) and o.ndim > 0


def _arr_map(a, fn):
    out = np.empty(a.shape, dtype=object)
    flat = a.reshape(-1)
    of = out.reshape(-1)
    for i in range(flat.shape[0]):
        of[i] = fn(flat[i])
    return SArr(out)


# --------------------------------------------------------------------------------------
# path context
# --------------------------------------------------------------------------------------
class Ctx:
    cur = None

    def __init__(self, sched=(), assumptions=(), alts=()):
        self.pc = list(assumptions)
        self.sched = list(sched)
        self.pos = 0
        # per decision: is the other branch feasible and still unexplored (scheduled prefix: carried over from the run
        # that discovered the fork, so that an outer fork is not forgotten while an inner one is being exhausted)
        self.alts = list(alts)
        self.solver = z3.Solver()
        self.solver.set('timeout', 20000)
        self.int_choices = []

    def feasible(self, extra):
        self.solver.push()
        self.solver.add(*self.pc, extra)
        t = time.time()
        r = str(self.solver.check())
        STATS['solver_s'] += time.time() - t
        STATS['queries'] += 1
        self.solver.pop()
        if r == 'unknown':
            raise Unsupported('fork feasibility unknown')
        return r == 'sat'

    def decide(self, cond) -> bool:
        """Branch on z3 Bool cond; follow the schedule, else pick a feasible branch."""
        cond = z3.simplify(cond)
        if z3.is_true(cond):
            return True
        if z3.is_false(cond):
            return False
        if self.pos < len(self.sched):
            ch = self.sched[self.pos]
            if self.pos >= len(self.alts):
                self.alts.append(False)
        else:
            ft = self.feasible(cond)
            ff = self.feasible(z3.Not(cond))
            if ft and ff:
                ch = True
                self.alts.append(True)
                STATS['forks'] += 1
            elif ft:
                ch = True
                self.alts.append(False)
            elif ff:
                ch = False
                self.alts.append(False)
            else:
                raise SymxError('infeasible path condition')
            self.sched.append(ch)
        self.pc.append(cond if ch else z3.Not(cond))
        self.pos += 1
        return ch


def cur():
    if Ctx.cur is None:
        Ctx.cur = Ctx()
    return Ctx.cur


def explore(fn, assumptions=(), max_paths=4096):
    """Run fn() once per feasible path.  Yields (path_condition_list, result).
    fn may raise; exceptions are yielded as results (instances of BaseException)."""
    sched = []
    alts0 = []
    n = 0
    while True:
        c = Ctx(sched, assumptions, alts0)
        Ctx.cur = c
        try:
            res = fn()
        except Unsupported:
            raise
        except Exception as e:   # noqa  -- code under analysis raised on this path
            res = e
        n += 1
        STATS['paths'] += 1
        yield list(c.pc), res
        full = c.sched[:c.pos]
        alts = c.alts[:c.pos]
        k = len(full) - 1
        while k >= 0 and not (full[k] is True and alts[k]):
            k -= 1
        if k < 0:
            Ctx.cur = None
            return
        sched = full[:k] + [False]
        alts0 = alts[:k] + [False]
        if n >= max_paths:
            Ctx.cur = None
            raise Unsupported(f'path budget {max_paths} exhausted')


# --------------------------------------------------------------------------------------
# symbolic values
# --------------------------------------------------------------------------------------
class SymBool:
    __slots__ = ('e',)

    def __init__(self, e):
        self.e = e

    def __bool__(self):
        return cur().decide(self.e)

    def __and__(self, o):
        return SymBool(z3.And(self.e, _lb(o)))
    __rand__ = __and__

    def __or__(self, o):
        return SymBool(z3.Or(self.e, _lb(o)))
    __ror__ = __or__

    def __invert__(self):
        return SymBool(z3.Not(self.e))

    # bool used arithmetically: (x > 0) * y
    def _num(self):
        return Sym(z3.If(self.e, z3.RealVal(1), z3.RealVal(0)))

    def __mul__(self, o):
        return self._num() * o
    __rmul__ = __mul__

    def __add__(self, o):
        return self._num() + o
    __radd__ = __add__

    def __sub__(self, o):
        return self._num() - o

    def __rsub__(self, o):
        return o - self._num()


def _lb(o):
    if isinstance(o, SymBool):
        return o.e
    return z3.BoolVal(bool(o))


def _ipow(base, n: int):
    if n == 0:
        return z3.RealVal(1)
    neg = n < 0
    n = abs(n)
    r = None
    sq = base
    # square-and-multiply keeps terms small; z3 treats x*x as nonlinear mul
    while n:
        if n & 1:
            r = sq if r is None else r * sq
        n >>= 1
        if n:
            sq = sq * sq
    return (1 / r) if neg else r


class Sym:
    __array_priority__ = 1000
    __slots__ = ('e',)

    def __init__(self, e):
        self.e = e

    # ---- arithmetic -------------------------------------------------------------
    def _b(op):
        def f(self, o):
            if _is_arr(o):
                return _arr_map(o, lambda c: f(self, c))
            if isinstance(o, SymBool):
                o = o._num()
            try:
                return Sym(op(self.e, lift(o)))
            except TypeError:
                return NotImplemented
        return f

    def _r(op):
        def f(self, o):
            if _is_arr(o):
                return _arr_map(o, lambda c: f(self, c))
            if isinstance(o, SymBool):
                o = o._num()
            try:
                return Sym(op(lift(o), self.e))
            except TypeError:
                return NotImplemented
        return f

    def _c(op):
        def f(self, o):
            if _is_arr(o):
                return NotImplemented
            try:
                return SymBool(op(self.e, lift(o)))
            except TypeError:
                return NotImplemented
        return f

    __add__ = _b(lambda a, b: a + b)
    __radd__ = _r(lambda a, b: a + b)
    __sub__ = _b(lambda a, b: a - b)
    __rsub__ = _r(lambda a, b: a - b)
    __mul__ = _b(lambda a, b: a * b)
    __rmul__ = _r(lambda a, b: a * b)
    __truediv__ = _b(lambda a, b: a / b)
    __rtruediv__ = _r(lambda a, b: a / b)
    __lt__ = _c(lambda a, b: a < b)
    __le__ = _c(lambda a, b: a <= b)
    __gt__ = _c(lambda a, b: a > b)
    __ge__ = _c(lambda a, b: a >= b)
    __eq__ = _c(lambda a, b: a == b)
    __ne__ = _c(lambda a, b: a != b)
    del _b, _r, _c

    def __hash__(self):
        return id(self)

    def __neg__(self):
        return Sym(-self.e)

    def __pos__(self):
        return self

    def __abs__(self):
        return Sym(z3.If(self.e >= 0, self.e, -self.e))

    def __pow__(self, o):
        if _is_arr(o):
            return NotImplemented
        if isinstance(o, Sym):
            c = const_value(o.e)
            if c is None:
                return Sym(UF('pow', 2)(self.e, o.e))
            o = c
        if isinstance(o, (float, np.floating, Fraction)):
            fr = rationalize(float(o)) if not isinstance(o, Fraction) else o
            if fr.denominator == 1:
                o = int(fr)
            elif fr.denominator == 2:
                # x**(k/2) = sqrt(x)**k
                return Sym(_ipow(UF('sqrt')(self.e), int(fr.numerator)))
            else:
                return Sym(UF('pow', 2)(self.e, rv(fr)))
        if isinstance(o, (int, np.integer)):
            return Sym(_ipow(self.e, int(o)))
        return NotImplemented

    def __rpow__(self, o):
        # c ** x  = exp(x*log(c)); keep as UF pow
        return Sym(UF('pow', 2)(lift(o), self.e))

    def __float__(self):
        c = const_value(self.e)
        if c is not None:
            return float(c)
        raise Unsupported('float() of a symbolic value (engine stub missing)')

    def __int__(self):
        c = const_value(self.e)
        if c is not None and c.denominator == 1:
            return int(c)
        raise Unsupported('int() of a symbolic value')

    __index__ = __int__

    def __bool__(self):
        return bool(self != 0)

    def __repr__(self):
        s = str(self.e).replace('\n', ' ')
        return f"Sym({s[:200]})"

    # ---- numpy ufunc dispatch on object arrays calls these methods ----------------
    def _uf1(name):
        def f(self):
            return Sym(UF(name)(self.e))
        f.__name__ = name
        return f

    exp = _uf1('exp')
    log = _uf1('log')
    sin = _uf1('sin')
    cos = _uf1('cos')
    tan = _uf1('tan')
    tanh = _uf1('tanh')
    sinh = _uf1('sinh')
    cosh = _uf1('cosh')
    arcsin = _uf1('arcsin')
    arccos = _uf1('arccos')
    arctan = _uf1('arctan')
    sqrt = _uf1('sqrt')
    del _uf1

    def sign(self):
        return Sym(z3.If(self.e > 0, z3.RealVal(1), z3.If(self.e < 0, z3.RealVal(-1), z3.RealVal(0))))

    def conjugate(self):
        return self
    conj = conjugate

    @property
    def real(self):
        return self

    @property
    def imag(self):
        return Sym(z3.RealVal(0))

    def rint(self):
        c = const_value(self.e)
        if c is not None:
            return Sym(rv(round(c)))
        return Sym(UF('round')(self.e))
    round = rint

    def __round__(self, nd=None):
        """builtin round(): integer concretisation by forking over the feasible values 0..INT_BOUND (half-even)"""
        c = const_value(self.e)
        if c is not None:
            return round(c)
        x = self.e
        half = z3.RealVal('1/2')
        for n in range(0, INT_BOUND + 1):
            cond = z3.And(x > n - half, x < n + half)
            if n % 2 == 0:
                cond = z3.Or(cond, x == n + half, x == n - half)
            if cur().decide(cond):
                return n
        raise Unsupported(f'round(): value outside 0..{INT_BOUND}')

    def item(self):
        return self

    # numpy scalar-ish attributes some code touches
    shape = ()
    ndim = 0
    dtype = np.dtype(object)

    def copy(self):
        return self

    def squeeze(self):
        return self


def const_value(e):
    """Fraction if the z3 term is a numeral (after simplification), else None."""
    s = z3.simplify(e)
    if z3.is_rational_value(s):
        return Fraction(s.numerator_as_long(), s.denominator_as_long())
    if z3.is_int_value(s):
        return Fraction(s.as_long())
    return None


def real(name):
    return Sym(z3.Real(name))


def val(x):
    return Sym(lift(x))


def ite(c, a, b):
    ce = c.e if isinstance(c, SymBool) else z3.BoolVal(bool(c))
    return Sym(z3.If(ce, lift(a), lift(b)))


def smax(a, b):
    return ite(as_sym(a) >= b, a, b)


def smin(a, b):
    return ite(as_sym(a) <= b, a, b)


def as_sym(x):
    return x if isinstance(x, Sym) else Sym(lift(x))


# --------------------------------------------------------------------------------------
# object ndarray subclass: unwrap 0-d results, JAX-style .at[].set()
# --------------------------------------------------------------------------------------
class _At:
    def __init__(self, arr):
        self.arr = arr

    def __getitem__(self, idx):
        return _AtIdx(self.arr, idx)


class _AtIdx:
    def __init__(self, arr, idx):
        self.arr, self.idx = arr, idx

    def set(self, v):
        new = self.arr.copy()
        new[self.idx] = v
        return new

    def add(self, v):
        new = self.arr.copy()
        new[self.idx] = new[self.idx] + v
        return new


class SArr(np.ndarray):
    """dtype=object array of Sym cells."""

    def __new__(cls, data):
        a = np.asarray(data, dtype=object)
        return a.view(cls)

    def __getitem__(self, idx):
        if isinstance(idx, np.ndarray) and idx.ndim == 0 and idx.dtype.kind in 'iu':
            idx = int(idx)
        elif isinstance(idx, tuple):
            idx = tuple(int(i) if isinstance(i, np.ndarray) and i.ndim == 0 and i.dtype.kind in 'iu' else i
                        for i in idx)
        r = np.ndarray.__getitem__(self, idx)
        if isinstance(r, np.ndarray) and r.ndim == 0:
            return r.item()
        return r

    def __setitem__(self, idx, v):
        if isinstance(idx, np.ndarray) and idx.ndim == 0 and idx.dtype.kind in 'iu':
            idx = int(idx)
        # float arrays reject assigning a sequence to a single cell; object arrays do not.
        tgt = np.ndarray.__getitem__(self.view(np.ndarray), idx)
        scalar_target = not (isinstance(tgt, np.ndarray) and tgt.ndim > 0)
        if scalar_target and isinstance(v, (np.ndarray, list, tuple)) and np.ndim(v) > 0:
            # NumPy >= 2 raises here for float arrays, also for sequences of length 1; torch accepts length 1
            if STRICT_SETITEM or np.size(v) != 1:
                raise ValueError('setting an array element with a sequence.')
            v = np.asarray(v, dtype=object).reshape(-1)[0]
        np.ndarray.__setitem__(self, idx, v)

    @property
    def at(self):
        return _At(self)

    def item(self, *a):
        return np.ndarray.item(self, *a)

    def numpy(self):
        return self

    def detach(self):
        return self

    def cpu(self):
        return self

    def clone(self):
        return SArr(np.array(self, dtype=object, copy=True))


def sarr(data):
    return SArr(data)


def symarray(prefix, shape):
    shape = tuple(shape) if not isinstance(shape, int) else (shape,)
    a = np.empty(shape, dtype=object)
    for ix in np.ndindex(*shape):
        a[ix] = real(prefix + ''.join(f"_{i}" for i in ix))
    return SArr(a)


def cells(x):
    """iterate (index, cell) of a Sym / array result"""
    if isinstance(x, np.ndarray):
        for ix in np.ndindex(*x.shape):
            yield ix, np.ndarray.__getitem__(x.view(np.ndarray), ix)
    else:
        yield (), x


# --------------------------------------------------------------------------------------
# numeric evaluation of z3 terms (for replaying counterexamples)
# --------------------------------------------------------------------------------------
_FLOAT_UF = {
    'exp': math.exp, 'log': lambda x: math.log(x), 'sin': math.sin, 'cos': math.cos, 'tan': math.tan,
    'tanh': math.tanh, 'sinh': math.sinh, 'cosh': math.cosh, 'arcsin': math.asin, 'arccos': math.acos,
    'arctan': math.atan, 'sqrt': math.sqrt, 'round': lambda x: float(np.round(x)),
    'pow': lambda a, b: a ** b,
}


def hist_component(i, tau):
    """fixed concrete interpretation of the symbolic history component i (used on both sides when replaying)"""
    return math.sin(1.7 * tau + i) + 0.3 * i


def evalf(e, env, ufs=None):
    """Evaluate z3 term e numerically.  env: name -> float for constants; ufs: name -> python callable for
    uninterpreted functions not in the built-in table."""
    cache = {}

    def go(t):
        k = t.get_id()
        if k in cache:
            return cache[k]
        r = _go(t)
        cache[k] = r
        return r

    def _go(t):
        if z3.is_rational_value(t):
            return t.numerator_as_long() / t.denominator_as_long()
        if z3.is_int_value(t):
            return float(t.as_long())
        if z3.is_true(t):
            return True
        if z3.is_false(t):
            return False
        d = t.decl()
        kind = d.kind()
        ch = t.children()
        if kind == z3.Z3_OP_UNINTERPRETED:
            name = d.name()
            if not ch:
                return env[name]
            args = [go(c) for c in ch]
            if ufs and name in ufs:
                return ufs[name](*args)
            if name.startswith('Hist'):
                return hist_component(int(name[4:]), args[0])
            return _FLOAT_UF[name](*args)
        if kind == z3.Z3_OP_ADD:
            return sum(go(c) for c in ch)
        if kind == z3.Z3_OP_MUL:
            r = 1.0
            for c in ch:
                r *= go(c)
            return r
        if kind == z3.Z3_OP_SUB:
            r = go(ch[0])
            for c in ch[1:]:
                r -= go(c)
            return r
        if kind == z3.Z3_OP_UMINUS:
            return -go(ch[0])
        if kind == z3.Z3_OP_DIV:
            return go(ch[0]) / go(ch[1])
        if kind == z3.Z3_OP_POWER:
            return go(ch[0]) ** go(ch[1])
        if kind == z3.Z3_OP_ITE:
            return go(ch[1]) if go(ch[0]) else go(ch[2])
        if kind == z3.Z3_OP_LE:
            return go(ch[0]) <= go(ch[1])
        if kind == z3.Z3_OP_LT:
            return go(ch[0]) < go(ch[1])
        if kind == z3.Z3_OP_GE:
            return go(ch[0]) >= go(ch[1])
        if kind == z3.Z3_OP_GT:
            return go(ch[0]) > go(ch[1])
        if kind == z3.Z3_OP_EQ:
            return go(ch[0]) == go(ch[1])
        if kind == z3.Z3_OP_DISTINCT:
            return go(ch[0]) != go(ch[1])
        if kind == z3.Z3_OP_NOT:
            return not go(ch[0])
        if kind == z3.Z3_OP_AND:
            return all(go(c) for c in ch)
        if kind == z3.Z3_OP_OR:
            return any(go(c) for c in ch)
        if kind == z3.Z3_OP_TO_REAL:
            return float(go(ch[0]))
        raise Unsupported(f"evalf: {d.name()}")

    return go(e)


def free_consts(e, acc=None, seen=None):
    """names of 0-ary uninterpreted constants in term e"""
    acc = set() if acc is None else acc
    seen = set() if seen is None else seen
    stack = [e]
    while stack:
        t = stack.pop()
        k = t.get_id()
        if k in seen:
            continue
        seen.add(k)
        if z3.is_app(t):
            if t.decl().kind() == z3.Z3_OP_UNINTERPRETED and t.num_args() == 0:
                acc.add(t.decl().name())
            stack.extend(t.children())
    return acc
