"""Evidence files, replay files, known findings, exit codes."""
import hashlib
import json
import os
import sys
import time

HERE = os.path.dirname(os.path.dirname(os.path.abspath(__file__)))
# development aid (seeded-change campaigns): VERIF_OUT redirects evidence and replays so that runs against a modified
# tree never overwrite the evidence of /repo itself
_OUT = os.environ.get('VERIF_OUT') or HERE
EVID = os.path.join(_OUT, 'evidence')
REPLAYS = os.path.join(_OUT, 'replays')
KNOWN = os.path.join(HERE, 'known_findings.json')

EXIT_OK, EXIT_VIOLATION, EXIT_HARNESS = 0, 1, 3


def _json_default(o):
    from fractions import Fraction
    import numpy as np
    if isinstance(o, Fraction):
        return str(o)
    if isinstance(o, (np.integer,)):
        return int(o)
    if isinstance(o, (np.floating,)):
        return float(o)
    if isinstance(o, np.ndarray):
        return o.tolist()
    if isinstance(o, (set, tuple)):
        return list(o)
    return repr(o)


def load_known():
    if not os.path.exists(KNOWN):
        return []
    with open(KNOWN) as f:
        d = json.load(f)
    return [x for x in d.get('findings', []) if x.get('status') == 'open']


class Report:
    def __init__(self, prop, tier, seed, level, functions_encoded=(), bounds=None, stubs=(), assumptions=()):
        self.prop, self.tier, self.seed, self.level = prop, tier, seed, level
        self.t0 = time.time()
        self.programs = 0
        self.samples = []
        self.violations = []
        self.known_hits = {}
        self.inconclusive = []
        self.harness_errors = []
        self.tally = {}
        self.stats = dict(queries=0, solver_s=0.0, forks=0, paths=0)
        self.functions_encoded = list(functions_encoded)
        self.bounds = bounds or {}
        self.stubs = list(stubs)
        self.assumptions = list(assumptions)
        self.extra = {}
        self.distinct = set()
        self.known = [k for k in load_known() if k['property'] == prop or prop in k.get('also_under', [])]
        self.sections = {}

    # ---------------------------------------------------------------------------------
    def add_stats(self, stats):
        for k, v in (stats or {}).items():
            self.stats[k] = self.stats.get(k, 0) + v

    def add_tally(self, t):
        for k, v in (t or {}).items():
            self.tally[k] = self.tally.get(k, 0) + v

    def program(self, key, sample=None, nontrivial=True):
        self.programs += 1
        if nontrivial:
            self.distinct.add(key)
        if sample is not None and len(self.samples) < 6:
            self.samples.append(sample)

    def section(self, name, **kv):
        d = self.sections.setdefault(name, {})
        for k, v in kv.items():
            if isinstance(v, (int, float)) and not isinstance(v, bool):
                d[k] = d.get(k, 0) + v
            else:
                d[k] = v

    def inconcl(self, rec):
        self.inconclusive.append(rec)

    def harness_error(self, msg):
        self.harness_errors.append(msg)
        print(f"HARNESS-ERROR property={self.prop} {msg}", file=sys.stderr)

    def violation(self, record, finding_id=None):
        """record: dict with 'what' and whatever is needed to replay.  finding_id: id of a known finding this
        violation was attributed to by the check (attribution logic lives in the check)."""
        if finding_id is not None and any(k['id'] == finding_id for k in self.known):
            self.known_hits.setdefault(finding_id, []).append(record.get('what', ''))
            return None
        os.makedirs(os.path.join(REPLAYS, self.prop), exist_ok=True)
        blob = json.dumps(record, default=_json_default, sort_keys=True)
        h = hashlib.sha1(blob.encode()).hexdigest()[:12]
        path = os.path.join(REPLAYS, self.prop, f"{h}.json")
        with open(path, 'w') as f:
            f.write(json.dumps(record, default=_json_default, indent=1, sort_keys=True))
        self.violations.append((path, record.get('what', '')))
        print(f"VIOLATION property={self.prop} replay={path}")
        print(f"  what: {str(record.get('what', ''))[:300]}")
        sys.stdout.flush()
        return path

    # ---------------------------------------------------------------------------------
    def finish(self, rule, exhaustive=False, extra_coverage=None, min_discharged=1):
        wall = time.time() - self.t0
        for fid, whats in self.known_hits.items():
            k = next(x for x in self.known if x['id'] == fid)
            print(f"KNOWN-FINDING: property={self.prop} {fid}: {k['what']} ({len(whats)} occurrence(s) this run)")
        cov = dict(
            programs=self.programs,
            evaluations=max(self.programs, 1),
            distinct_nontrivial=len(self.distinct),
            rule=rule,
            samples=self.samples or ['<none>'],
            disagreements_checked=self.tally.get('sat', 0),
            obligations=self.tally.get('obligations', 0),
            discharged=self.tally.get('unsat', 0),
            exhaustive=bool(exhaustive),
            functions_encoded=self.functions_encoded,
            bounds=self.bounds,
            stubs=self.stubs,
            queries=self.stats.get('queries', 0),
            solver_s=round(self.stats.get('solver_s', 0.0), 3),
            paths=self.stats.get('paths', 0),
            forks=self.stats.get('forks', 0),
            tally=self.tally,
            inconclusive=len(self.inconclusive),
            inconclusive_samples=self.inconclusive[:5],
            known_findings_hit={k: len(v) for k, v in self.known_hits.items()},
            harness_errors=self.harness_errors[:5],
            sections=self.sections,
            solver_versions=_solver_versions(),
            hash_seed=os.environ.get('PYTHONHASHSEED', ''),
            states=max(self.stats.get('paths', 0), 1),
            transitions=max(self.stats.get('forks', 0), 1),
            traces_validated_against_impl=self.tally.get('sat_confirmed', 0),
            checker_cmd=f"./check {self.prop} --tier {self.tier}",
            trusted_base=['z3 5.1 (python API)', 'CPython', 'NumPy object-array data movement',
                          'pyverif library models (validated per run)', 'pyverif reference semantics'],
            explanation=rule,
        )
        if extra_coverage:
            cov.update(extra_coverage)
        ev = dict(property_id=self.prop, tier=self.tier, seed=int(self.seed), level=self.level, coverage=cov,
                  assumptions=self.assumptions, wall_s=round(wall, 2), violations=len(self.violations))
        os.makedirs(EVID, exist_ok=True)
        with open(os.path.join(EVID, f"{self.prop}.json"), 'w') as f:
            f.write(json.dumps(ev, default=_json_default, indent=1))
        n_disch = self.tally.get('unsat', 0) + self.extra.get('discharged_other', 0)
        print(f"[{self.prop}] tier={self.tier} programs={self.programs} obligations={cov['obligations']} "
              f"unsat={cov['discharged']} sat={self.tally.get('sat', 0)} inconclusive={len(self.inconclusive)} "
              f"known={sum(len(v) for v in self.known_hits.values())} violations={len(self.violations)} "
              f"queries={cov['queries']} solver_s={cov['solver_s']} wall={wall:.1f}s")
        if self.violations:
            return EXIT_VIOLATION
        if self.harness_errors:
            return EXIT_HARNESS
        if n_disch < min_discharged:
            print(f"HARNESS-ERROR property={self.prop} nothing was discharged (vacuous run)", file=sys.stderr)
            return EXIT_HARNESS
        return EXIT_OK


def _solver_versions():
    out = {}
    try:
        import z3
        out['z3'] = z3.get_version_string()
    except Exception:   # noqa
        pass
    try:
        import cvc5
        out['cvc5'] = getattr(cvc5, '__version__', 'wheel')
    except Exception:   # noqa
        pass
    return out
