"""Stand-in for the missing f2py/meson tool chain (harness-level monkey patch, no repo change).

FortranBackend.generate_func writes <name>.f90 and then runs `python -m numpy.f2py -c -m <name> <file>`, which fails
in this sandbox (meson is absent).  install() replaces fortran_backend.subprocess.run by a function that compiles the
very same file with plain gfortran into a shared library and registers a module <name> whose attribute <name> exposes
the module procedures through ctypes with f2py's calling convention (scalars by value, intent(inout) arrays updated in
place).  The real compiled Fortran is therefore available for concrete replay; the symbolic side never uses it.
"""
import ctypes
import os
import subprocess as _sp
import sys
import types

import numpy as np

from . import f90smt

_real_run = _sp.run


class _Done:
    def __init__(self, rc=0, err=''):
        self.returncode = rc
        self.stderr = err
        self.stdout = ''


def _wrap(lib, modname, unit):
    sym = f"__{modname.lower()}_MOD_{unit.name.lower()}"
    cfun = getattr(lib, sym)
    cfun.restype = None
    if unit.kind == 'function':
        cfun.restype = ctypes.c_double

    def call(*args):
        if len(args) != len(unit.args):
            raise TypeError(f"{unit.name}() takes {len(unit.args)} arguments ({len(args)} given)")
        cargs, post = [], []
        for a, v in zip(unit.args, args):
            d = unit.decls[a]
            if d['dims'] is None:
                if d['type'] == 'integer':
                    cargs.append(ctypes.byref(ctypes.c_int(int(np.asarray(v).reshape(-1)[0]))))
                else:
                    cargs.append(ctypes.byref(ctypes.c_double(float(np.asarray(v).reshape(-1)[0]))))
                continue
            dt = np.int32 if d['type'] == 'integer' else np.float64
            arr = np.asarray(v)
            work = np.asfortranarray(arr, dtype=dt)
            if not work.flags['F_CONTIGUOUS'] or not work.flags['WRITEABLE']:
                work = np.array(work, dtype=dt, order='F')
            if d['intent'] in ('inout', 'out', None) and isinstance(v, np.ndarray) and work is not v and not np.shares_memory(work, v):
                post.append((v, work))
            cargs.append(work.ctypes.data_as(ctypes.c_void_p))
        r = cfun(*cargs)
        for orig, work in post:
            orig[...] = work
        return r
    call.__name__ = unit.name
    return call


def _compile(fname, path):
    so = os.path.join(os.path.dirname(os.path.abspath(path)), f"lib{fname}_pv.so")
    p = _real_run(['gfortran', '-shared', '-fPIC', '-O0', '-ffree-line-length-none', '-o', so, path],
                  capture_output=True, text=True)
    for ext in ('.mod',):
        m = os.path.join(os.getcwd(), fname.lower() + ext)
        if os.path.exists(m):
            os.remove(m)
    if p.returncode != 0:
        return None, p.stderr
    return so, ''


def _fake_run(cmd, *a, **kw):
    if isinstance(cmd, (list, tuple)) and 'numpy.f2py' in cmd:
        fname, path = cmd[-2], cmd[-1]
        so, err = _compile(fname, path)
        if so is None:
            return _Done(1, 'gfortran: ' + err)
        lib = ctypes.CDLL(so)
        text = open(path).read()
        units, _ = f90smt.parse_module(text)
        inner = types.SimpleNamespace()
        for u in units.values():
            if all((u.decls.get(x) or {}).get('dims') != [':'] for x in u.args):
                try:
                    setattr(inner, u.name, _wrap(lib, fname, u))
                except AttributeError:
                    pass
        mod = types.ModuleType(fname)
        setattr(mod, fname, inner)
        mod.__pv_lib__ = lib
        sys.modules[fname] = mod
        return _Done(0)
    return _real_run(cmd, *a, **kw)


def install():
    import pyrates.backend.fortran.fortran_backend as fb
    fb.subprocess = types.SimpleNamespace(run=_fake_run)
