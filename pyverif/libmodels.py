"""Library models: what `numpy`, `torch`, `jax.numpy`, `jax`, `jax.nn`, `scipy.sparse` mean for code that is
executed on Sym values.  Pure data movement is delegated to real NumPy on object arrays; C kernels that cannot
see Sym cells are replaced by exact models of their documented semantics.  validate() compares every model
with the real library at random concrete points.
"""
import builtins
import math
import types

import numpy as np
import z3

from . import symx
from .symx import Sym, SymBool, SArr, Unsupported


def _obj(x):
    if isinstance(x, np.ndarray):
        return x
    return x


def _cell(c):
    from .ad import Dual
    return c if isinstance(c, (Sym, Dual)) else symx.as_sym(c)


def _elementwise(fn):
    def f(x, *rest):
        if isinstance(x, np.ndarray) and x.ndim > 0:
            out = np.empty(x.shape, dtype=object)
            for ix in np.ndindex(*x.shape):
                out[ix] = fn(_cell(np.ndarray.__getitem__(x.view(np.ndarray), ix)), *rest)
            return SArr(out)
        return fn(_cell(x), *rest)
    return f


def _uf(name):
    return _elementwise(lambda s: getattr(s, name)())


def _binary_elementwise(fn):
    def f(a, b):
        if (isinstance(a, np.ndarray) and a.ndim > 0) or (isinstance(b, np.ndarray) and b.ndim > 0):
            A, B = np.broadcast_arrays(np.asarray(a, dtype=object), np.asarray(b, dtype=object))
            out = np.empty(A.shape, dtype=object)
            for ix in np.ndindex(*A.shape):
                out[ix] = fn(A[ix], B[ix])
            return SArr(out)
        return fn(a, b)
    return f


m_exp = _uf('exp'); m_log = _uf('log'); m_sin = _uf('sin'); m_cos = _uf('cos'); m_tan = _uf('tan')
m_tanh = _uf('tanh'); m_sinh = _uf('sinh'); m_cosh = _uf('cosh'); m_arctan = _uf('arctan')
m_arcsin = _uf('arcsin'); m_arccos = _uf('arccos'); m_sqrt = _uf('sqrt')
m_sign = _uf('sign')
m_abs = _elementwise(lambda s: abs(s))
m_round = _elementwise(lambda s: s.rint())
m_real = lambda x: x
m_imag = _elementwise(lambda s: symx.val(0))
m_conj = lambda x: x
m_sigmoid = _elementwise(lambda s: 1 / (1 + (-s).exp()))
def _mx(a, b):
    from .ad import Dual, dmax
    return dmax(a, b) if isinstance(a, Dual) or isinstance(b, Dual) else symx.smax(a, b)


def _mn(a, b):
    from .ad import Dual, dmin
    return dmin(a, b) if isinstance(a, Dual) or isinstance(b, Dual) else symx.smin(a, b)


m_maximum = _binary_elementwise(_mx)
m_minimum = _binary_elementwise(_mn)


def m_interp(x, xp, fp):
    """numpy.interp: piecewise linear through (xp, fp), xp increasing, clamped to fp[0] / fp[-1] outside."""
    xp = list(np.asarray(xp, dtype=object).reshape(-1))
    fp = list(np.asarray(fp, dtype=object).reshape(-1))
    if len(xp) != len(fp):
        raise ValueError('fp and xp are not of the same length.')
    if isinstance(x, np.ndarray) and x.ndim > 0:
        return SArr([m_interp(xi, xp, fp) for xi in x])
    x = symx.as_sym(x)
    n = len(xp)
    res = symx.as_sym(fp[-1])                      # x >= xp[-1]
    for j in range(n - 2, -1, -1):
        x0, x1 = symx.as_sym(xp[j]), symx.as_sym(xp[j + 1])
        f0, f1 = symx.as_sym(fp[j]), symx.as_sym(fp[j + 1])
        seg = f0 + (x - x0) * ((f1 - f0) / (x1 - x0))
        res = symx.ite(x < x1, seg, res)
    res = symx.ite(x <= symx.as_sym(xp[0]), fp[0], res)
    return res


def m_einsum(spec, *ops):
    """general einsum over object arrays (explicit index loops; exact for any subscripts string with '->')"""
    spec = spec.replace(' ', '')
    if '->' not in spec:
        raise Unsupported(f'einsum without explicit output: {spec}')
    ins, out = spec.split('->')
    ins = ins.split(',')
    if len(ins) != len(ops):
        raise ValueError('einsum: operand count does not match the subscripts')
    arrs = [np.asarray(o, dtype=object) for o in ops]
    dims = {}
    for sub, a in zip(ins, arrs):
        if len(sub) != a.ndim:
            raise ValueError(f'einsum: operand has {a.ndim} dimensions, subscripts {sub!r}')
        for ch, n in zip(sub, a.shape):
            # numpy.einsum broadcasts dimensions of length 1
            if ch not in dims or dims[ch] == 1:
                dims[ch] = n
            elif n != 1 and dims[ch] != n:
                raise ValueError(f'einsum: size of label {ch} does not match')
    summed = [c for c in dims if c not in out]
    res = np.empty(tuple(dims[c] for c in out), dtype=object)
    import itertools
    for oix in itertools.product(*[range(dims[c]) for c in out]):
        env = dict(zip(out, oix))
        acc = symx.val(0)
        for six in itertools.product(*[range(dims[c]) for c in summed]):
            env.update(zip(summed, six))
            term = None
            for sub, a in zip(ins, arrs):
                cell = a[tuple(env[c] if a.shape[k] > 1 else 0 for k, c in enumerate(sub))]
                term = cell if term is None else term * cell
            acc = acc + term
        res[oix] = acc
    return SArr(res) if res.ndim else res.item()


def m_dot(a, b):
    a = np.asarray(a, dtype=object) if not isinstance(a, np.ndarray) else a
    b = np.asarray(b, dtype=object) if not isinstance(b, np.ndarray) else b
    r = np.dot(a.astype(object), b.astype(object))
    if isinstance(r, np.ndarray):
        return SArr(r) if r.ndim else r.item()
    return r


def m_matmul(a, b):
    a = np.asarray(a)
    b = np.asarray(b)
    if a.ndim == 0 or b.ndim == 0:
        raise ValueError('matmul: Input operand does not have enough dimensions')
    return m_dot(a, b)


def m_sum(x, axis=None, **kw):
    x = np.asarray(x, dtype=object)
    if x.ndim == 0:
        return x.item()
    r = x.sum(axis=axis)
    return SArr(r) if isinstance(r, np.ndarray) and r.ndim else (r.item() if isinstance(r, np.ndarray) else r)


def m_mean(x, axis=None, **kw):
    x = np.asarray(x, dtype=object)
    if x.ndim == 0:
        return x.item()
    n = x.size if axis is None else x.shape[axis]
    return m_sum(x, axis=axis) / n


def m_roll(x, shift, axis=None, dims=None):
    if dims is not None:
        axis = dims
    if isinstance(shift, np.ndarray):
        shift = int(shift)
    return SArr(np.roll(np.asarray(x, dtype=object), shift, axis))


def m_array(x, dtype=None, **kw):
    return SArr(np.array(x, dtype=object))


def m_asarray(x, dtype=None, **kw):
    if isinstance(x, np.ndarray) and x.dtype == object:
        return x
    a = np.asarray(x)
    if a.dtype == object:
        return SArr(a)
    return a


def m_zeros(shape, dtype=None, **kw):
    a = np.empty(shape if not isinstance(shape, int) else (shape,), dtype=object)
    z = symx.val(0)
    for ix in np.ndindex(*a.shape):
        a[ix] = z
    return SArr(a)


def m_zeros_like(x, **kw):
    return m_zeros(np.shape(x))


def m_concatenate(seq, axis=0, dim=None):
    if dim is not None:
        axis = dim
    parts = []
    for p in seq:
        a = np.asarray(p, dtype=object) if not isinstance(p, np.ndarray) else p
        if a.ndim == 0:
            raise ValueError('zero-dimensional arrays cannot be concatenated')
        parts.append(a.astype(object))
    return SArr(np.concatenate(parts, axis))


def m_argmin(x, **kw):
    """fork over the minimising index (first minimum, as numpy)"""
    x = list(np.asarray(x, dtype=object).reshape(-1))
    for i in range(len(x)):
        is_min = True
        for j in range(len(x)):
            if j == i:
                continue
            c = (symx.as_sym(x[i]) < x[j]) if j < i else (symx.as_sym(x[i]) <= x[j])
            if not bool(c):
                is_min = False
                break
        if is_min:
            return i
    raise symx.SymxError('argmin: no minimising index feasible')


def m_stack(seq, axis=0):
    return SArr(np.stack([np.asarray(p, dtype=object) for p in seq], axis))


class TaggedSparse:
    def __init__(self, a):
        self.a = a

    def toarray(self):
        return self.a


def m_csr_matrix(a, **kw):
    return TaggedSparse(a)


def m_reshape(x, *shape):
    return SArr(np.reshape(np.asarray(x, dtype=object), *shape))


def m_where(c, a, b):
    raise Unsupported('where')


def _mk(name, **extra):
    m = types.ModuleType(name)
    base = dict(
        pi=math.pi, e=m_exp(symx.val(1)), sqrt=m_sqrt, exp=m_exp, log=m_log, sin=m_sin, cos=m_cos, tan=m_tan, tanh=m_tanh,
        sinh=m_sinh, cosh=m_cosh, arctan=m_arctan, arcsin=m_arcsin, arccos=m_arccos, sign=m_sign, abs=m_abs,
        absolute=m_abs, round=m_round, real=m_real, imag=m_imag, conjugate=m_conj, conj=m_conj,
        maximum=m_maximum, minimum=m_minimum, interp=m_interp, einsum=m_einsum, dot=m_dot, matmul=m_matmul,
        sum=m_sum, mean=m_mean, roll=m_roll, array=m_array, asarray=m_asarray, zeros=m_zeros,
        zeros_like=m_zeros_like, concatenate=m_concatenate, concat=m_concatenate, argmin=m_argmin, stack=m_stack,
        reshape=m_reshape, sigmoid=m_sigmoid,
        float32='float32', float64='float64', int32='int32', int64='int64',
    )
    base.update(extra)
    for k, v in base.items():
        setattr(m, k, v)
    return m


def lax_scan(f, init, xs, length=None):
    """jax.lax.scan reference semantics (documented Python equivalent)."""
    if xs is None:
        xs = [None] * length
    carry = init
    ys = []
    for x in xs:
        carry, y = f(carry, x)
        ys.append(y)
    return carry, m_stack(ys)


def make_modules():
    np_m = _mk('numpy')
    torch_m = _mk('torch', tensor=m_asarray, as_tensor=m_asarray, from_numpy=m_asarray)
    jnp_m = _mk('jax.numpy')
    jax_m = types.ModuleType('jax')
    jax_m.jit = lambda f=None, **kw: f if f is not None else (lambda g: g)
    jax_m.numpy = jnp_m
    nn = types.ModuleType('jax.nn')
    nn.sigmoid = m_sigmoid
    jax_m.nn = nn
    lax = types.ModuleType('jax.lax')
    lax.scan = lax_scan
    jax_m.lax = lax
    sp = types.ModuleType('scipy')
    sps = types.ModuleType('scipy.sparse')
    sps.csr_matrix = m_csr_matrix
    sp.sparse = sps
    return {'numpy': np_m, 'torch': torch_m, 'jax': jax_m, 'jax.numpy': jnp_m, 'jax.nn': nn, 'jax.lax': lax,
            'scipy': sp, 'scipy.sparse': sps}


def load_source(src: str, fname: str, extra_globals=None):
    """exec emitted Python text with the library models in place of the real libraries; returns namespace[fname]"""
    mods = make_modules()

    def imp(name, g=None, l=None, fromlist=(), level=0):
        root = name.split('.')[0]
        if root in ('numpy', 'torch', 'jax', 'scipy'):
            if name not in mods:
                raise Unsupported(f'import of unmodelled module {name}')
            if fromlist:
                m = mods[name]
                for f in fromlist:
                    if not hasattr(m, f):
                        raise Unsupported(f'unmodelled library function {name}.{f}')
                return m
            return mods[root]
        return builtins.__import__(name, g, l, fromlist, level)

    b = dict(vars(builtins))
    b['__import__'] = imp
    from .ad import Dual as _Dual
    b['abs'] = lambda x: m_abs(x) if isinstance(x, (np.ndarray, Sym, _Dual)) else builtins.abs(x)
    b['round'] = lambda x, *a: m_round(x) if isinstance(x, (np.ndarray, Sym)) else builtins.round(x, *a)
    b['float'] = lambda x=0.0: x if isinstance(x, Sym) else builtins.float(x)
    ns = {'__builtins__': b}
    if extra_globals:
        ns.update(extra_globals)
    exec(compile(src, f'<emitted:{fname}>', 'exec'), ns)
    return ns[fname], ns


# --------------------------------------------------------------------------------------------
# validation of the models against the real library (concrete points)
# --------------------------------------------------------------------------------------------
def _conc(x):
    """Sym/array-of-Sym with constant terms -> float array"""
    if isinstance(x, np.ndarray):
        out = np.empty(x.shape)
        for ix in np.ndindex(*x.shape):
            out[ix] = _conc(np.ndarray.__getitem__(x.view(np.ndarray), ix))
        return out
    if isinstance(x, Sym):
        return symx.evalf(x.e, {})
    return float(x)


def validate(seed=0):
    rng = np.random.default_rng(seed)
    n_checked = 0

    def lift_arr(a):
        return SArr(np.vectorize(lambda v: symx.val(float(v)), otypes=[object])(a)) if np.ndim(a) else symx.val(float(a))

    def close(a, b):
        return np.allclose(np.asarray(a, dtype=float), np.asarray(b, dtype=float), rtol=1e-9, atol=1e-12)

    # path exploration: k independent forks must yield all 2**k paths (and nested, data-dependent forks all leaves)
    def _forks():
        vs = [symx.real(f"__f{i}") for i in range(4)]
        r = 0
        for i, v in enumerate(vs):
            if v > 0:
                r += 2 ** i
                if i == 1 and vs[0] > 1:
                    r += 100
        return r
    leaves = sorted(r for _, r in symx.explore(_forks))
    assert leaves == sorted(list(range(16)) + [100 + k for k in range(16) if k & 1 and k & 2]), leaves
    symx.Ctx.cur = symx.Ctx()
    n_checked += 1
    # unary
    for name in ['exp', 'sin', 'cos', 'tan', 'tanh', 'sinh', 'cosh', 'arctan', 'sqrt', 'log', 'abs', 'sign']:
        x = rng.uniform(0.1, 2.0, size=4) * (1 if name in ('sqrt', 'log') else rng.choice([-1, 1], size=4))
        got = _conc(globals()['m_' + name](lift_arr(x)))
        assert close(got, getattr(np, name)(x)), name
        n_checked += 1
    x = rng.uniform(-2, 2, size=5)
    assert close(_conc(m_sigmoid(lift_arr(x))), 1 / (1 + np.exp(-x)))
    a, b = rng.uniform(-2, 2, size=5), rng.uniform(-2, 2, size=5)
    assert close(_conc(m_maximum(lift_arr(a), lift_arr(b))), np.maximum(a, b))
    assert close(_conc(m_minimum(lift_arr(a), lift_arr(b))), np.minimum(a, b))
    # interp incl. clamping and exact knots
    xp = np.sort(rng.uniform(0, 5, size=6))
    fp = rng.uniform(-3, 3, size=6)
    for q in list(rng.uniform(-1, 6, size=12)) + list(xp):
        got = _conc(m_interp(symx.val(float(q)), lift_arr(xp), lift_arr(fp)))
        assert close(got, np.interp(q, xp, fp)), ('interp', q)
        n_checked += 1
    W, Cm = rng.uniform(-1, 1, size=(3, 4)), rng.uniform(-1, 1, size=(3, 4))
    assert close(_conc(m_einsum('ij,ij->i', lift_arr(W), lift_arr(Cm))), np.einsum('ij,ij->i', W, Cm))
    assert close(_conc(m_einsum('ij,ij->i', lift_arr(W), lift_arr(Cm[:1]))), np.einsum('ij,ij->i', W, Cm[:1]))
    assert close(_conc(m_einsum('ij,ji->i', lift_arr(W[:, :3]), lift_arr(Cm[:, :3]))), np.einsum('ij,ji->i', W[:, :3], Cm[:, :3]))
    v = rng.uniform(-1, 1, size=4)
    assert close(_conc(m_dot(lift_arr(W), lift_arr(v))), np.dot(W, v))
    assert close(_conc(m_dot(W, lift_arr(v))), np.dot(W, v))
    assert close(_conc(m_sum(lift_arr(W))), np.sum(W))
    assert close(_conc(m_mean(lift_arr(v))), np.mean(v))
    assert close(_conc(m_roll(lift_arr(W), 1, 1)), np.roll(W, 1, 1))
    assert close(_conc(m_roll(lift_arr(v), 1)), np.roll(v, 1))
    assert close(_conc(m_concatenate([lift_arr(v), lift_arr(a)], 0)), np.concatenate([v, a], 0))
    # argmin under symx path exploration on constants
    symx.Ctx.cur = symx.Ctx()
    assert m_argmin(lift_arr(v)) == int(np.argmin(v))
    symx.Ctx.cur = None
    # lax.scan against jax itself
    try:
        import jax
        import jax.numpy as jnp

        def step(c, x):
            return c * 0.5 + x, c - x
        xs = rng.uniform(-1, 1, size=5)
        c_j, ys_j = jax.lax.scan(step, jnp.asarray(0.3), jnp.asarray(xs))
        c_m, ys_m = lax_scan(step, symx.val(0.3), list(lift_arr(xs)))
        assert np.allclose(_conc(c_m), float(c_j), rtol=1e-5)
        assert np.allclose(_conc(ys_m), np.asarray(ys_j), rtol=1e-5, atol=1e-6)
        n_checked += 1
        # .at[].set
        A = jnp.asarray(v)
        B = A.at[1].set(7.0)
        Am = lift_arr(v).at[1].set(symx.val(7.0))
        assert np.allclose(_conc(Am), np.asarray(B), rtol=1e-6)
        assert np.allclose(_conc(lift_arr(v)), v)
        # jnp.interp equals np.interp
        assert np.allclose(float(jnp.interp(1.3, jnp.asarray(xp), jnp.asarray(fp))), np.interp(1.3, xp, fp), rtol=1e-5)
        # sigmoid
        assert np.allclose(np.asarray(jax.nn.sigmoid(jnp.asarray(x))), 1 / (1 + np.exp(-x)), rtol=1e-5)
    except ImportError:
        pass
    try:
        import torch
        assert np.allclose(torch.sigmoid(torch.tensor(x)).numpy(), 1 / (1 + np.exp(-x)))
        assert np.allclose(torch.roll(torch.tensor(W), 1, 1).numpy(), np.roll(W, 1, 1))
        assert int(torch.argmin(torch.tensor(v))) == int(np.argmin(v))
        assert np.allclose(torch.matmul(torch.tensor(W), torch.tensor(v)).numpy(), W @ v)
    except ImportError:
        pass
    return n_checked
