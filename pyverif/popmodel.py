"""Population / Connectivity models: one description, two PyRates builds (PopulationTemplate + Connectivity, and the
explicit network through add_edges_from_matrix) and one explicit ModelSpec for the reference semantics."""
from dataclasses import dataclass, field
from fractions import Fraction as F
from typing import Dict, List, Optional

import numpy as np

from .spec import OpSpec, NodeSpec, EdgeSpec, EdgeTplSpec, ModelSpec


@dataclass
class Pop:
    ops: List[str]
    n: int
    params: Dict[str, list] = field(default_factory=dict)     # 'op/var' -> list of n Fractions | single Fraction


@dataclass
class Conn:
    src: str            # 'pop/op/var'
    tgt: str
    W: object           # list of lists of Fraction (n_t x n_s; 0 = no connection) | Fraction (scalar weight)
    edge: Optional[str] = None          # edge template name
    var_map: Dict[str, str] = field(default_factory=dict)    # input -> 'source' | 'pop/op/var'
    delay: Optional[F] = None
    spread: Optional[F] = None
    edge_values: Dict[str, F] = field(default_factory=dict)  # 'op/var' -> value of an edge operator constant on THIS connection


@dataclass
class PopModel:
    ops: Dict[str, OpSpec]
    pops: Dict[str, Pop]
    conns: List[Conn]
    edge_tpls: Dict[str, EdgeTplSpec] = field(default_factory=dict)
    note: str = ''


def unit(pop, i):
    return f"{pop}_{i}"


def explicit_spec(pm: PopModel) -> ModelSpec:
    nodes, edges = {}, []
    for pn, p in pm.pops.items():
        for i in range(p.n):
            ov = {}
            for key, val in p.params.items():
                o, v = key.split('/')
                ov[(o, v)] = val[i] if isinstance(val, list) else val
            nodes[unit(pn, i)] = NodeSpec(list(p.ops), ov)
    for c in pm.conns:
        sp, so, sv = c.src.split('/')
        tp, to, tv = c.tgt.split('/')
        ns, nt = pm.pops[sp].n, pm.pops[tp].n
        for i in range(nt):
            for j in range(ns):
                w = c.W if not isinstance(c.W, list) else c.W[i][j]
                if w == 0:
                    continue
                vm = {}
                for k, m in c.var_map.items():
                    if m == 'source':
                        vm[k] = 'source'
                    else:
                        mp, mo, mv = m.split('/')
                        vm[k] = f"{unit(mp, i)}/{mo}/{mv}"
                edges.append(EdgeSpec(f"{unit(sp, j)}/{so}/{sv}", f"{unit(tp, i)}/{to}/{tv}", F(w), delay=c.delay,
                                      spread=c.spread, template=c.edge, var_map=vm,
                                      edge_overrides=dict(c.edge_values)))
    return ModelSpec('popmodel', pm.ops, nodes, edges, dict(pm.edge_tpls), note=pm.note)


def _op_templates(pm):
    from pyrates import OperatorTemplate
    return {n: OperatorTemplate(name=o.name, path=None, equations=o.eq_strings(), variables=o.var_defs())
            for n, o in pm.ops.items()}


def build_population(pm: PopModel):
    from pyrates import CircuitTemplate, NodeTemplate, EdgeTemplate
    from pyrates.frontend.template.population import PopulationTemplate, Connectivity
    ot = _op_templates(pm)
    pops = {}
    for pn, p in pm.pops.items():
        nt = NodeTemplate(name=f"{pn}_node", path=None, operators=[ot[o] for o in p.ops])
        params = {k: ([float(x) for x in v] if isinstance(v, list) else float(v)) for k, v in p.params.items()}
        pops[pn] = PopulationTemplate(name=pn, node=nt, n=p.n, params=params)
    et = {n: EdgeTemplate(name=n, path=None, operators=[ot[o] for o in t.ops]) for n, t in pm.edge_tpls.items()}
    conns = []
    for c in pm.conns:
        W = np.array([[float(x) for x in row] for row in c.W]) if isinstance(c.W, list) else float(c.W)
        kw = {}
        if c.edge:
            kw['edge'] = et[c.edge]
            if c.edge_values:
                # the same operator template with other values for this connection
                ovs = {}
                for key, val in c.edge_values.items():
                    o, v = key.split('/')
                    ovs.setdefault(o, {})[v] = float(val)
                kw['edge'] = EdgeTemplate(name=c.edge, path=None,
                                          operators={ot[o]: ovs.get(o, {}) for o in pm.edge_tpls[c.edge].ops})
            kw['edge_var_map'] = dict(c.var_map)
        if c.delay is not None:
            kw['delays'] = float(c.delay)
        if c.spread is not None:
            kw['spread'] = float(c.spread)
        conns.append(Connectivity(source=c.src, target=c.tgt, weights=W, **kw))
    return CircuitTemplate('popmodel', populations=pops, connections=conns)
