"""f90smt -- the subset of Fortran 90 that PyRates emits, interpreted over symx values.

Handled: module header constants, subroutine / function units with declaration lines (type, intent, explicit or assumed
shape), '&' continuation lines, assignments to scalars / array elements / whole arrays / sections, if / else if / else,
one-line if, do / exit / end do, call, return, arithmetic with Fortran typing of literals (integer / integer is integer
division), relational and logical operators, 1-based bounds-checked array references, intrinsics, and calls of the
helper functions emitted into the same module (translated, not modelled).  Symbolic conditions fork through symx.
"""
import math
import re
from fractions import Fraction

import numpy as np
import z3

from . import symx
from .symx import Sym, SymBool, SArr


class F90Error(Exception):
    """the text is not in the supported subset, or is not valid Fortran (undeclared name, bad subscript ...)"""


class F90Bounds(F90Error):
    pass


# ---------------------------------------------------------------------------------------------
# lexer / expression parser
# ---------------------------------------------------------------------------------------------
TOKEN = re.compile(r"""
    (?P<num>(\d+\.\d*|\.\d+|\d+)([edED][+-]?\d+)?(_\w+)?) |
    (?P<logop>\.(and|or|not|true|false|eq|ne|lt|le|gt|ge)\.) |
    (?P<name>[A-Za-z_]\w*) |
    (?P<op>\*\*|==|/=|<=|>=|::|[-+*/(),:<>=%]) |
    (?P<ws>\s+)
""", re.X | re.I)


def tokenize(s):
    out = []
    i = 0
    while i < len(s):
        m = TOKEN.match(s, i)
        if not m:
            raise F90Error(f"cannot tokenize {s[i:i + 20]!r} in {s!r}")
        i = m.end()
        if m.lastgroup == 'ws':
            continue
        out.append((m.lastgroup, m.group(m.lastgroup)))
    return out


class Parser:
    def __init__(self, toks):
        self.t = toks
        self.i = 0

    def peek(self):
        return self.t[self.i] if self.i < len(self.t) else (None, None)

    def eat(self, val=None):
        k, v = self.peek()
        if val is not None and (v is None or v.lower() != val):
            raise F90Error(f"expected {val!r}, got {v!r}")
        self.i += 1
        return k, v

    # precedence: .or. < .and. < .not. < relational < + - < * / < unary < **
    def expr(self):
        return self.p_or()

    def p_or(self):
        a = self.p_and()
        while self.peek()[1] and self.peek()[1].lower() == '.or.':
            self.eat()
            a = ('or', a, self.p_and())
        return a

    def p_and(self):
        a = self.p_not()
        while self.peek()[1] and self.peek()[1].lower() == '.and.':
            self.eat()
            a = ('and', a, self.p_not())
        return a

    def p_not(self):
        if self.peek()[1] and self.peek()[1].lower() == '.not.':
            self.eat()
            return ('not', self.p_not())
        return self.p_rel()

    REL = {'==': '==', '/=': '/=', '<': '<', '<=': '<=', '>': '>', '>=': '>=', '.eq.': '==', '.ne.': '/=', '.lt.': '<',
           '.le.': '<=', '.gt.': '>', '.ge.': '>='}

    def p_rel(self):
        a = self.p_add()
        v = self.peek()[1]
        if v and v.lower() in self.REL:
            self.eat()
            return ('rel', self.REL[v.lower()], a, self.p_add())
        return a

    def p_add(self):
        v = self.peek()[1]
        if v in ('-', '+'):
            self.eat()
            a = self.p_mul()
            a = ('neg', a) if v == '-' else a
        else:
            a = self.p_mul()
        while self.peek()[1] in ('+', '-'):
            _, op = self.eat()
            a = (op, a, self.p_mul())
        return a

    def p_mul(self):
        a = self.p_unary()
        while self.peek()[1] in ('*', '/'):
            _, op = self.eat()
            a = (op, a, self.p_unary())
        return a

    def p_unary(self):
        v = self.peek()[1]
        if v == '-':
            self.eat()
            return ('neg', self.p_unary())
        if v == '+':
            self.eat()
            return self.p_unary()
        return self.p_pow()

    def p_pow(self):
        a = self.p_atom()
        if self.peek()[1] == '**':
            self.eat()
            b = self.p_unary()          # right associative; unary minus allowed in exponent
            return ('**', a, b)
        return a

    def p_atom(self):
        k, v = self.peek()
        if k == 'num':
            self.eat()
            txt = v.split('_')[0].lower().replace('d', 'e')
            if re.fullmatch(r'\d+', txt):
                return ('int', int(txt))
            return ('real', float(txt))
        if k == 'logop' and v.lower() in ('.true.', '.false.'):
            self.eat()
            return ('bool', v.lower() == '.true.')
        if v == '(':
            self.eat()
            e = self.expr()
            if self.peek()[1] == ',':            # complex literal (re, im)
                self.eat()
                im = self.expr()
                self.eat(')')
                return ('complex', e, im)
            self.eat(')')
            return ('paren', e)
        if k == 'name':
            self.eat()
            if self.peek()[1] == '(':
                self.eat()
                args = []
                if self.peek()[1] != ')':
                    args.append(self.p_arg())
                    while self.peek()[1] == ',':
                        self.eat()
                        args.append(self.p_arg())
                self.eat(')')
                return ('call', v, args)
            return ('name', v)
        raise F90Error(f"unexpected token {v!r}")

    def p_arg(self):
        # expr | lo:hi | : | lo: | :hi
        if self.peek()[1] == ':':
            self.eat()
            if self.peek()[1] in (',', ')'):
                return ('slice', None, None)
            return ('slice', None, self.expr())
        e = self.expr()
        if self.peek()[1] == ':':
            self.eat()
            if self.peek()[1] in (',', ')'):
                return ('slice', e, None)
            return ('slice', e, self.expr())
        return e


def parse_expr(s):
    p = Parser(tokenize(s))
    e = p.expr()
    if p.i != len(p.t):
        raise F90Error(f"trailing tokens in expression {s!r}: {p.t[p.i:]}")
    return e


# ---------------------------------------------------------------------------------------------
# program structure
# ---------------------------------------------------------------------------------------------
class Unit:
    def __init__(self, kind, name, args):
        self.kind, self.name, self.args = kind, name.lower(), [a.lower() for a in args]
        self.decls = {}          # name -> dict(type, intent, dims)
        self.body = []           # statements
        self.result = None


def logical_lines(text):
    lines = []
    cur = ''
    for raw in text.split('\n'):
        line = raw.split('!')[0].rstrip() if '!' in raw and "'" not in raw else raw.rstrip()
        s = line.strip()
        if not s:
            if cur:
                continue
            lines.append('')
            continue
        if s.startswith('&'):
            s = s[1:].lstrip()
        if cur:
            s = cur + ' ' + s if not cur.endswith((' ',)) else cur + s
        if s.endswith('&'):
            cur = s[:-1].rstrip() + ' '
            continue
        cur = ''
        lines.append(s)
    if cur:
        lines.append(cur)
    return [l for l in lines if l.strip()]


DECL = re.compile(r"^(double\s+precision|real(\s*\([^)]*\))?|integer|complex(\s*\([^)]*\))?|logical)\s*(.*?)::\s*(.*)$", re.I)


def _split_top(s, sep=','):
    out, depth, cur = [], 0, ''
    for ch in s:
        if ch == '(':
            depth += 1
        elif ch == ')':
            depth -= 1
        if ch == sep and depth == 0:
            out.append(cur)
            cur = ''
        else:
            cur += ch
    if cur.strip():
        out.append(cur)
    return [x.strip() for x in out]


def parse_module(text):
    lines = logical_lines(text)
    units = {}
    consts = {}
    i = 0
    n = len(lines)
    cur = None
    stack = None
    while i < n:
        ln = lines[i]
        low = ln.lower().strip()
        i += 1
        if cur is None:
            m = re.match(r"^(subroutine|function)\s+(\w+)\s*\((.*)\)\s*(result\s*\(\s*(\w+)\s*\))?$", ln.strip(), re.I)
            m2 = re.match(r"^(double\s+precision|real|integer)\s+function\s+(\w+)\s*\((.*)\)$", ln.strip(), re.I)
            if m:
                cur = Unit(m.group(1).lower(), m.group(2), [a for a in _split_top(m.group(3)) if a])
                cur.result = (m.group(5) or m.group(2)).lower() if cur.kind == 'function' else None
                stack = [cur.body]
                continue
            if m2:
                cur = Unit('function', m2.group(2), [a for a in _split_top(m2.group(3)) if a])
                cur.result = m2.group(2).lower()
                cur.decls[cur.result] = dict(type='real' if 'int' not in m2.group(1).lower() else 'integer', intent=None, dims=None)
                stack = [cur.body]
                continue
            d = DECL.match(ln.strip())
            if d and '=' in d.group(5):
                nm, val = d.group(5).split('=', 1)
                consts[nm.strip().lower()] = (d.group(1).lower(), val.strip())
            continue
        # inside a unit
        if re.match(r"^end\s*(subroutine|function)", low):
            units[cur.name] = cur
            cur = None
            continue
        if low.startswith('implicit') or low.startswith('use ') or low == 'contains':
            continue
        d = DECL.match(ln.strip())
        if d:
            ftype = 'integer' if d.group(1).lower().startswith('integer') else \
                ('complex' if d.group(1).lower().startswith('complex') else
                 ('logical' if d.group(1).lower().startswith('logical') else 'real'))
            attrs = d.group(4).lower()
            intent = None
            mi = re.search(r"intent\s*\(\s*(\w+)\s*\)", attrs)
            if mi:
                intent = mi.group(1)
            dim_attr = re.search(r"dimension\s*\(([^)]*)\)", attrs)
            for item in _split_top(d.group(5)):
                mm = re.match(r"^(\w+)\s*(\((.*)\))?\s*(=\s*(.*))?$", item)
                if not mm:
                    raise F90Error(f"cannot parse declaration item {item!r}")
                dims = None
                if mm.group(3) is not None:
                    dims = [x.strip() for x in _split_top(mm.group(3))]
                elif dim_attr:
                    dims = [x.strip() for x in _split_top(dim_attr.group(1))]
                cur.decls[mm.group(1).lower()] = dict(type=ftype, intent=intent, dims=dims, init=mm.group(5))
            continue
        # executable statements
        body = stack[-1]
        m = re.match(r"^if\s*\((.*)\)\s*then$", ln.strip(), re.I)
        if m:
            node = ['if', [(parse_expr(m.group(1)), [])], None]
            body.append(node)
            stack.append(node[1][0][1])
            continue
        m = re.match(r"^else\s*if\s*\((.*)\)\s*then$", ln.strip(), re.I)
        if m:
            stack.pop()
            node = stack[-1][-1]
            node[1].append((parse_expr(m.group(1)), []))
            stack.append(node[1][-1][1])
            continue
        if low == 'else':
            stack.pop()
            node = stack[-1][-1]
            node[2] = []
            stack.append(node[2])
            continue
        if re.match(r"^end\s*if$", low):
            stack.pop()
            continue
        m = re.match(r"^do\s+(\w+)\s*=\s*(.*)$", ln.strip(), re.I)
        if m:
            parts = _split_top(m.group(2))
            node = ['do', m.group(1).lower(), [parse_expr(p) for p in parts], []]
            body.append(node)
            stack.append(node[3])
            continue
        if re.match(r"^end\s*do$", low):
            stack.pop()
            continue
        if low == 'exit':
            body.append(['exit'])
            continue
        if low == 'return':
            body.append(['return'])
            continue
        m = re.match(r"^call\s+(\w+)\s*\((.*)\)$", ln.strip(), re.I)
        if m:
            body.append(['call', m.group(1).lower(), [parse_expr(a) for a in _split_top(m.group(2))]])
            continue
        m = re.match(r"^if\s*\((.*)\)\s*(exit|return)$", ln.strip(), re.I)
        if m:
            body.append(['if', [(parse_expr(m.group(1)), [[m.group(2).lower()]])], None])
            continue
        m = _match_one_line_if(ln.strip())
        if m:
            cond, stmt = m
            lhs, rhs = _split_assign(stmt)
            body.append(['if', [(parse_expr(cond), [['assign', parse_expr(lhs), parse_expr(rhs), stmt]])], None])
            continue
        lhs, rhs = _split_assign(ln.strip())
        body.append(['assign', parse_expr(lhs), parse_expr(rhs), ln.strip()])
    return units, consts


def _match_one_line_if(s):
    if not re.match(r"^if\s*\(", s, re.I):
        return None
    i = s.index('(')
    depth = 0
    for j in range(i, len(s)):
        if s[j] == '(':
            depth += 1
        elif s[j] == ')':
            depth -= 1
            if depth == 0:
                rest = s[j + 1:].strip()
                if rest and not rest.lower().startswith('then'):
                    return s[i + 1:j], rest
                return None
    return None


def _split_assign(s):
    depth = 0
    for i, ch in enumerate(s):
        if ch == '(':
            depth += 1
        elif ch == ')':
            depth -= 1
        elif ch == '=' and depth == 0:
            if i + 1 < len(s) and s[i + 1] == '=':
                continue
            if i > 0 and s[i - 1] in '<>/=':
                continue
            return s[:i].strip(), s[i + 1:].strip()
    raise F90Error(f"not a statement of the supported subset (and not valid Fortran if it was meant as an assignment): {s!r}")


# ---------------------------------------------------------------------------------------------
# interpreter
# ---------------------------------------------------------------------------------------------
class FInt(int):
    """integer-typed value (so that / is integer division)"""


class _Exit(Exception):
    pass


class _Return(Exception):
    pass


def _is_int(v):
    return isinstance(v, (FInt, int, np.integer)) and not isinstance(v, bool)


def _fdiv(a, b):
    if _is_int(a) and _is_int(b):
        if b == 0:
            raise F90Error('integer division by zero')
        q = abs(int(a)) // abs(int(b))
        return FInt(q if (a >= 0) == (b >= 0) else -q)
    return _num(a) / _num(b)


def _num(v):
    if _is_int(v):
        return int(v)
    return v


def _as(v):
    """Sym (or dual number) view of a value"""
    from .ad import Dual
    if isinstance(v, Dual):
        return v
    return symx.as_sym(_num(v))


INTRINSIC1 = {'exp': 'exp', 'log': 'log', 'sin': 'sin', 'cos': 'cos', 'tan': 'tan', 'tanh': 'tanh', 'sinh': 'sinh',
              'cosh': 'cosh', 'atan': 'arctan', 'asin': 'arcsin', 'acos': 'arccos', 'sqrt': 'sqrt'}


class Interp:
    def __init__(self, text):
        self.units, self.consts = parse_module(text)
        self.globals = {}
        for nm, (tp, val) in self.consts.items():
            if tp.startswith('complex'):
                continue
            self.globals[nm] = self.eval(parse_expr(val), {}, None)

    # ---- calling -------------------------------------------------------------------------
    def call(self, name, args):
        """args: python values (Sym, SArr, int).  Arrays are passed by reference (mutated in place)."""
        u = self.units.get(name.lower())
        if u is None:
            raise F90Error(f"call of undefined procedure {name}")
        if len(args) != len(u.args):
            raise F90Error(f"{name}: {len(args)} actual arguments for {len(u.args)} dummies")
        env = {}
        for a, v in zip(u.args, args):
            d = u.decls.get(a)
            if d is None:
                raise F90Error(f"{name}: dummy argument {a} is not declared")
            env[a] = self._coerce_arg(u, a, d, v, env)
        for nm, d in u.decls.items():
            if nm in env:
                continue
            env[nm] = self._fresh_local(u, nm, d, env)
        try:
            self.exec_block(u.body, env, u)
        except _Return:
            pass
        if u.kind == 'function':
            r = env.get(u.result)
            if r is None:
                raise F90Error(f"function {name} returns without assigning its result")
            return r
        return None

    def _dims(self, u, d, env):
        if d['dims'] is None:
            return None
        out = []
        for x in d['dims']:
            if x.strip() in (':', '*'):
                out.append(None)
            else:
                v = self.eval(parse_expr(x), env, u)
                out.append(int(v))
        return out

    def _coerce_arg(self, u, a, d, v, env):
        dims = self._dims(u, d, env)
        if dims is None:
            if isinstance(v, np.ndarray):
                if v.size != 1:
                    raise F90Error(f"{u.name}: array passed for scalar dummy {a}")
                v = v.reshape(-1)[0]
            if d['type'] == 'integer':
                if isinstance(v, Sym):
                    c = symx.const_value(v.e)
                    if c is None or c.denominator != 1:
                        raise symx.Unsupported(f"symbolic value for integer dummy {a}")
                    return FInt(int(c))
                return FInt(int(v))
            from .ad import Dual
            return v if isinstance(v, (Sym, Dual)) else symx.val(v)
        arr = v if isinstance(v, np.ndarray) else np.asarray([v], dtype=object)
        for k, dm in enumerate(dims):
            if dm is not None and (k >= arr.ndim or arr.shape[k] != dm):
                # explicit-shape dummy: sequence association would reinterpret the storage; PyRates always passes
                # conforming shapes, so a mismatch is an error of the emitted text
                raise F90Error(f"{u.name}: actual argument for {a} has shape {arr.shape}, declared {dims}")
        return arr

    def _fresh_local(self, u, nm, d, env):
        dims = self._dims(u, d, env)
        if dims is None:
            return None          # unassigned scalar: poison
        a = np.empty(tuple(dims), dtype=object)
        return SArr(a)

    # ---- statements ----------------------------------------------------------------------
    def exec_block(self, body, env, u):
        for st in body:
            k = st[0]
            if k == 'assign':
                self.assign(st[1], self.eval(st[2], env, u), env, u, st[3])
            elif k == 'if':
                done = False
                for cond, blk in st[1]:
                    c = self.eval(cond, env, u)
                    if self.truth(c):
                        self.exec_block(blk, env, u)
                        done = True
                        break
                if not done and st[2] is not None:
                    self.exec_block(st[2], env, u)
            elif k == 'do':
                var, rng, blk = st[1], st[2], st[3]
                lo = int(self.eval(rng[0], env, u))
                hi = int(self.eval(rng[1], env, u))
                step = int(self.eval(rng[2], env, u)) if len(rng) > 2 else 1
                i = lo
                env[var] = FInt(i)
                try:
                    while (i <= hi) if step > 0 else (i >= hi):
                        env[var] = FInt(i)
                        self.exec_block(blk, env, u)
                        i += step
                    env[var] = FInt(i)
                except _Exit:
                    pass
            elif k == 'exit':
                raise _Exit()
            elif k == 'return':
                raise _Return()
            elif k == 'call':
                args = [self.eval_ref(a, env, u) for a in st[2]]
                self.call(st[1], args)
            else:
                raise F90Error(f"statement {k}")

    def truth(self, c):
        if isinstance(c, SymBool):
            return bool(c)
        return bool(c)

    def assign(self, lhs, val, env, u, text):
        if lhs[0] == 'name':
            nm = lhs[1].lower()
            if nm not in env and nm not in u.decls:
                raise F90Error(f"assignment to undeclared variable {nm} in `{text}`")
            cur = env.get(nm)
            d = u.decls.get(nm, {})
            if isinstance(cur, np.ndarray):
                if isinstance(val, np.ndarray):
                    if val.shape != cur.shape:
                        raise F90Error(f"shape mismatch in `{text}`: {cur.shape} = {val.shape}")
                    cur[...] = val
                else:
                    cur[...] = self._conv(val, d.get('type'))
            else:
                if isinstance(val, np.ndarray):
                    raise F90Error(f"array assigned to scalar in `{text}`")
                env[nm] = self._conv(val, d.get('type'))
            return
        if lhs[0] == 'call':
            nm = lhs[1].lower()
            arr = env.get(nm)
            if not isinstance(arr, np.ndarray):
                raise F90Error(f"subscripted assignment to non-array {nm} in `{text}`")
            idx = self._index(arr, lhs[2], env, u, nm)
            d = u.decls.get(nm, {})
            if isinstance(val, np.ndarray):
                tgt = np.ndarray.__getitem__(arr.view(np.ndarray), idx)
                if not isinstance(tgt, np.ndarray) or tgt.shape != val.shape:
                    raise F90Error(f"shape mismatch in `{text}`")
                np.ndarray.__setitem__(arr.view(np.ndarray), idx, val)
            else:
                np.ndarray.__setitem__(arr.view(np.ndarray), idx, self._conv(val, d.get('type')))
            return
        raise F90Error(f"bad left-hand side in `{text}`")

    def _conv(self, v, ftype):
        if ftype == 'integer':
            if isinstance(v, Sym):
                c = symx.const_value(v.e)
                if c is None:
                    raise symx.Unsupported('symbolic value assigned to an integer variable')
                return FInt(int(c))      # truncation toward zero
            return FInt(int(v))
        if _is_int(v):
            return symx.val(int(v))
        return v

    def _index(self, arr, args, env, u, nm):
        if len(args) != arr.ndim:
            raise F90Error(f"{nm} has rank {arr.ndim}, subscripted with {len(args)} subscripts")
        idx = []
        for k, a in enumerate(args):
            n = arr.shape[k]
            if a[0] == 'slice':
                lo = 1 if a[1] is None else int(self.eval(a[1], env, u))
                hi = n if a[2] is None else int(self.eval(a[2], env, u))
                if lo < 1 or hi > n:
                    raise F90Bounds(f"section {nm}({lo}:{hi}) outside 1..{n}")
                idx.append(slice(lo - 1, hi))
            else:
                v = self.eval(a, env, u)
                if isinstance(v, np.ndarray):
                    iv = np.array([int(x) for x in v.reshape(-1)])
                    if iv.min() < 1 or iv.max() > n:
                        raise F90Bounds(f"vector subscript of {nm} outside 1..{n}: {iv.tolist()}")
                    idx.append(iv - 1)
                    continue
                if isinstance(v, Sym):
                    c = symx.const_value(v.e)
                    if c is None or c.denominator != 1:
                        raise symx.Unsupported(f"symbolic subscript of {nm}")
                    v = int(c)
                v = int(v)
                if v < 1 or v > n:
                    raise F90Bounds(f"subscript {nm}({v}) outside 1..{n}")
                idx.append(v - 1)
        return tuple(idx)

    # ---- expressions ---------------------------------------------------------------------
    def eval_ref(self, e, env, u):
        """actual argument: whole arrays by reference"""
        if e[0] == 'name':
            nm = e[1].lower()
            if nm in env and isinstance(env[nm], np.ndarray):
                return env[nm]
        return self.eval(e, env, u)

    def eval(self, e, env, u):
        k = e[0]
        if k == 'int':
            return FInt(e[1])
        if k == 'real':
            return symx.val(e[1])
        if k == 'bool':
            return e[1]
        if k == 'paren':
            return self.eval(e[1], env, u)
        if k == 'name':
            nm = e[1].lower()
            if nm in env:
                v = env[nm]
                if v is None:
                    raise F90Error(f"variable {nm} is used before it is assigned")
                return v
            if nm in self.globals:
                return self.globals[nm]
            raise F90Error(f"undeclared name {nm}")
        if k == 'neg':
            v = self.eval(e[1], env, u)
            return FInt(-v) if _is_int(v) else -v
        if k in ('+', '-', '*'):
            a, b = self.eval(e[1], env, u), self.eval(e[2], env, u)
            if _is_int(a) and _is_int(b):
                return FInt({'+': a + b, '-': a - b, '*': a * b}[k])
            a, b = _num(a), _num(b)
            return a + b if k == '+' else (a - b if k == '-' else a * b)
        if k == '/':
            return _fdiv(self.eval(e[1], env, u), self.eval(e[2], env, u))
        if k == '**':
            a, b = self.eval(e[1], env, u), self.eval(e[2], env, u)
            if _is_int(a) and _is_int(b):
                return FInt(int(a) ** int(b)) if b >= 0 else FInt(0 if abs(a) > 1 else int(a) ** int(b))
            a = _as(a) if not isinstance(a, np.ndarray) else a
            if _is_int(b):
                return a ** int(b)
            if isinstance(b, Sym):
                c = symx.const_value(b.e)
                if c is not None:
                    return a ** (int(c) if c.denominator == 1 else c)
            return a ** b
        if k == 'rel':
            a, b = _num(self.eval(e[2], env, u)), _num(self.eval(e[3], env, u))
            from .ad import Dual
            a = a.p if isinstance(a, Dual) else a
            b = b.p if isinstance(b, Dual) else b
            op = e[1]
            if not isinstance(a, Sym) and not isinstance(b, Sym):
                return {'==': a == b, '/=': a != b, '<': a < b, '<=': a <= b, '>': a > b, '>=': a >= b}[op]
            a = symx.as_sym(a)
            return {'==': a == b, '/=': a != b, '<': a < b, '<=': a <= b, '>': a > b, '>=': a >= b}[op]
        if k in ('and', 'or'):
            a, b = self.eval(e[1], env, u), self.eval(e[2], env, u)
            if isinstance(a, SymBool) or isinstance(b, SymBool):
                a = a if isinstance(a, SymBool) else SymBool(z3.BoolVal(bool(a)))
                return (a & b) if k == 'and' else (a | b)
            return (a and b) if k == 'and' else (a or b)
        if k == 'not':
            a = self.eval(e[1], env, u)
            return ~a if isinstance(a, SymBool) else (not a)
        if k == 'call':
            return self.call_or_index(e, env, u)
        if k == 'complex':
            raise symx.Unsupported('complex literal')
        raise F90Error(f"expression node {k}")

    def call_or_index(self, e, env, u):
        nm = e[1].lower()
        args = e[2]
        if nm in env and isinstance(env[nm], np.ndarray):
            arr = env[nm]
            idx = self._index(arr, args, env, u, nm)
            r = np.ndarray.__getitem__(arr.view(np.ndarray), idx)
            if isinstance(r, np.ndarray):
                if any(x is None for x in r.reshape(-1)):
                    raise F90Error(f"elements of {nm} are used before they are assigned")
                return SArr(r.copy())
            if r is None:
                raise F90Error(f"{nm}{tuple(i + 1 if isinstance(i, int) else i for i in idx)} is used before it is assigned")
            return r
        if nm in env and not isinstance(env[nm], np.ndarray) and nm not in self.units:
            raise F90Error(f"scalar {nm} is subscripted / called")
        if nm in self.units:
            return self.call(nm, [self.eval_ref(a, env, u) for a in args])
        vals = [self.eval(a, env, u) for a in args]
        return self.intrinsic(nm, vals)

    def intrinsic(self, nm, v):
        def el(fn, x):
            if isinstance(x, np.ndarray):
                return SArr(np.array([fn(_as(c)) for c in x.reshape(-1)], dtype=object).reshape(x.shape))
            return fn(_as(x))
        if nm in INTRINSIC1:
            meth = INTRINSIC1[nm]
            return el(lambda s: getattr(s, meth)(), v[0])
        if nm == 'abs':
            if _is_int(v[0]):
                return FInt(abs(v[0]))
            return el(abs, v[0])
        if nm in ('sign', 'dsign'):
            if len(v) != 2:
                raise F90Error(f"intrinsic {nm} takes two arguments, {len(v)} given (the emitted text is not valid Fortran here)")
            a, b = symx.as_sym(_num(v[0])), symx.as_sym(_num(v[1]))
            return symx.ite(b >= 0, abs(a), -abs(a))
        if nm == 'merge':
            if len(v) != 3:
                raise F90Error(f"intrinsic merge takes three arguments, {len(v)} given")
            mask = v[2]
            if isinstance(mask, (bool, np.bool_)):
                return v[0] if mask else v[1]
            return symx.ite(mask, _num(v[0]), _num(v[1]))
        if nm in ('max', 'min'):
            r = v[0]
            for x in v[1:]:
                if _is_int(r) and _is_int(x):
                    r = FInt(max(r, x) if nm == 'max' else min(r, x))
                else:
                    from .ad import Dual, dmax, dmin
                    if isinstance(r, Dual) or isinstance(x, Dual):
                        r = dmax(_num(r), _num(x)) if nm == 'max' else dmin(_num(r), _num(x))
                    else:
                        r = symx.smax(_num(r), _num(x)) if nm == 'max' else symx.smin(_num(r), _num(x))
            return r
        if nm == 'size':
            if not isinstance(v[0], np.ndarray):
                raise F90Error('size() of a scalar')
            if len(v) > 1:
                return FInt(v[0].shape[int(v[1]) - 1])
            return FInt(v[0].size)
        if nm == 'sum':
            a = np.asarray(v[0], dtype=object)
            s = symx.val(0)
            for c in a.reshape(-1):
                s = s + _num(c)
            return s
        if nm == 'matmul':
            return SArr(np.dot(np.asarray(v[0], dtype=object), np.asarray(v[1], dtype=object)))
        if nm == 'cshift':
            a = np.asarray(v[0], dtype=object)
            sh = int(v[1])
            dim = int(v[2]) if len(v) > 2 else 1
            # cshift(a, s): result(i) = a(i + s)  (circular)  ==  numpy.roll(a, -s)
            return SArr(np.roll(a, -sh, axis=dim - 1))
        if nm in ('real', 'dble', 'realpart', 'conjg', 'float'):
            return symx.as_sym(_num(v[0])) if not isinstance(v[0], np.ndarray) else v[0]
        if nm in ('imagpart', 'aimag'):
            return symx.val(0)
        if nm in ('nint', 'anint'):
            x = symx.as_sym(_num(v[0]))
            c = symx.const_value(x.e)
            if c is None:
                raise symx.Unsupported('nint of a symbolic value')
            r = math.floor(c + Fraction(1, 2)) if c >= 0 else -math.floor(-c + Fraction(1, 2))
            return FInt(r)
        if nm == 'int':
            x = symx.as_sym(_num(v[0]))
            c = symx.const_value(x.e)
            if c is None:
                raise symx.Unsupported('int of a symbolic value')
            return FInt(int(c))
        raise F90Error(f"reference to undefined function or array `{nm}` (the emitted text is not valid Fortran here)")


def load(text):
    return Interp(text)


# ---------------------------------------------------------------------------------------------------
# kinds: a real-valued encoding cannot see that `double precision :: c = 4.0*atan(1.0)` is evaluated in DEFAULT (single)
# precision before it is stored.  Module-level initialisers are constant expressions over literals and intrinsics, so the
# question is decided by evaluating them under both kind assignments (binary32 for default-real literals and whatever
# is computed from them / binary64 throughout).
# ---------------------------------------------------------------------------------------------------
def kind_mismatches(text):
    """[(name, initialiser, value_as_written, value_in_double)] for double precision constants whose initialiser, evaluated
    with Fortran's kind rules, differs from its double precision value by more than 4 ulp"""
    import numpy as _np
    _, consts = parse_module(text)
    out = []
    lit = re.compile(r"(?<![\w.])(\d+\.\d*|\.\d+|\d+)(?:([eEdD])([+-]?\d+))?(?:_(\w+))?")
    fns = dict(atan=_np.arctan, asin=_np.arcsin, acos=_np.arccos, exp=_np.exp, log=_np.log, sqrt=_np.sqrt, sin=_np.sin,
               cos=_np.cos, tan=_np.tan, abs=_np.abs)
    for nm, (tp, val) in consts.items():
        if not tp.startswith('double'):
            continue

        def render(single):
            def rep(m):
                mant, ech, eexp, kind = m.groups()
                is_real = ('.' in mant) or ech is not None
                if not is_real:
                    return f"int({mant})"
                num = mant + (f"e{eexp}" if ech else '')
                dbl = (ech in ('d', 'D')) or (kind in ('8', 'dp', 'real64'))
                return f"_f64({num})" if (dbl or not single) else f"_f32({num})"
            return lit.sub(rep, val.lower()).replace('**', '**')
        try:
            with _np.errstate(all='ignore'):
                env = dict(fns, _f32=_np.float32, _f64=_np.float64, int=int, __builtins__={})
                a = float(eval(render(True), env))
                b = float(eval(render(False), env))
        except Exception:   # noqa  (not a constant expression over the modelled intrinsics)
            continue
        if abs(a - b) > 4 * _np.spacing(abs(b)):
            out.append((nm, val, a, b))
    return out


def literal_kind_mismatches(text, unit='stpnt'):
    """assignments `<lhs> = <real literal>` inside `unit` whose targets are double precision while the literal is a
    default-real one (no d exponent, no kind suffix): Fortran converts the literal to binary32 first.  Returns
    [(lhs, literal, value_stored, value_written)] for the literals that binary32 does not hold exactly - decided exactly
    (the two roundings are computed and compared as rationals)."""
    import numpy as _np
    from fractions import Fraction as _F
    out = []
    m = re.search(rf"subroutine\s+{unit}\b(.*?)end\s+subroutine\s+{unit}", text, re.I | re.S)
    if not m:
        return out
    body = m.group(1)
    dbl = set()
    for d in re.finditer(r"^\s*double\s+precision[^:\n]*::\s*(.*)$", body, re.I | re.M):
        dbl |= {x.split('(')[0].strip().lower() for x in _split_top(d.group(1))}
    for a in re.finditer(r"^\s*(\w+)\s*\(\s*(\d+)\s*\)\s*=\s*([^!\n]+?)\s*(?:!.*)?$", body, re.M):
        name, idx, rhs = a.group(1).lower(), a.group(2), a.group(3).strip()
        if name not in dbl:
            continue
        if not re.fullmatch(r"[+-]?(\d+\.\d*|\.\d+|\d+)([eE][+-]?\d+)?", rhs) or not re.search(r"[.eE]", rhs):
            continue          # not a default-real literal (integer, d exponent, kind suffix, expression)
        written = _F(float(rhs))
        stored = _F(float(_np.float32(float(rhs))))
        if stored != written:
            out.append((f"{name}({idx})", rhs, float(stored), float(written)))
    return out


def inexact_default_real_literals(text):
    """default-real literals (no exponent letter d, no kind suffix) in the executable statements of procedures that
    declare double precision data: Fortran rounds such a literal to binary32 before it takes part in a double precision
    expression.  Returns [(statement, literal, value_used, value_written)] for the literals binary32 does not hold exactly
    (decided exactly on rationals).  Declarations, comments and character constants are skipped."""
    import numpy as _np
    from fractions import Fraction as _F
    out = []
    lit = re.compile(r"(?<![\w.])(\d+\.\d*(?:[eE][+-]?\d+)?|\.\d+(?:[eE][+-]?\d+)?|\d+[eE][+-]?\d+)(?![\w.])")
    in_unit = False
    has_double = False
    pending = []
    for ln in logical_lines(text):
        st = ln.strip()
        low = st.lower()
        if re.match(r"^(subroutine|function|double\s+precision\s+function|real\s+function)\b", low):
            in_unit, has_double, pending = True, low.startswith('double'), []
            continue
        if re.match(r"^end\s*(subroutine|function)", low):
            if has_double:
                out += pending
            in_unit = False
            continue
        if not in_unit:
            continue
        if DECL.match(st):
            has_double = has_double or low.startswith('double')
            continue
        code = st.split('!')[0]
        code = re.sub(r"'[^']*'|\"[^\"]*\"", '', code)
        for m in lit.finditer(code):
            x = m.group(1)
            written = _F(float(x))
            used = _F(float(_np.float32(float(x))))
            if used != written:
                pending.append((code.strip()[:120], x, float(used), float(written)))
    return out
