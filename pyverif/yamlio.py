"""YAML frontend: own emitter for ModelSpecs (loaded with CircuitTemplate.from_yaml), round trip through to_yaml."""
import os
import tempfile


def _fmt(v):
    return repr(v) if isinstance(v, float) else str(v)


def spec_to_yaml_text(spec, top='top', derived=None):
    """derived: optional dict opname -> (base_op_name, edits) to emit a `base:` chain for that operator"""
    L = ["%YAML 1.2", "---", ""]
    for o in spec.ops.values():
        if derived and o.name in derived:
            continue
        L.append(f"{o.name}:")
        L.append("  base: OperatorTemplate")
        L.append("  equations:")
        for eq in o.eq_strings():
            L.append(f"    - \"{eq}\"")
        L.append("  variables:")
        for v, d in o.var_defs().items():
            L.append(f"    {v}: {_fmt(d)}")
        L.append("")
    if derived:
        for name, text in derived.items():
            L.append(text)
            L.append("")
    ntpl = {}
    for n, ns in spec.nodes.items():
        key = ns.template or n.replace('/', '_')
        tname = f"{key}_tpl"
        if tname in ntpl:
            continue
        ntpl[tname] = True
        L.append(f"{tname}:")
        L.append("  base: NodeTemplate")
        L.append("  operators:")
        for oname in ns.ops:
            ov = {v: float(val) for (o, v), val in ns.overrides.items() if o == oname}
            if ov:
                L.append(f"    {oname}:")
                for v, val in ov.items():
                    L.append(f"      {v}: {_fmt(val)}")
            else:
                L.append(f"    {oname}: {{}}")
        L.append("")
    for name, et in spec.edge_tpls.items():
        L.append(f"{name}:")
        L.append("  base: EdgeTemplate")
        L.append("  operators:")
        for o in et.ops:
            L.append(f"    - {o}")
        L.append("")

    def edge_line(e, prefix):
        k = len(prefix) + 1 if prefix else 0
        attrs = []
        if e.weight is not None:
            attrs.append(f"weight: {_fmt(float(e.weight))}")
        if e.delay is not None:
            attrs.append(f"delay: {_fmt(float(e.delay))}")
        if e.spread is not None:
            attrs.append(f"spread: {_fmt(float(e.spread))}")
        for kk, v in e.edge_overrides.items():
            attrs.append(f"{kk}: {_fmt(float(v))}")
        return f"    - [{e.src[k:]}, {e.tgt[k:]}, {e.template or 'null'}, {{{', '.join(attrs)}}}]"

    def common_prefix(e):
        a = e.src.rsplit('/', 2)[0].split('/')[:-1]
        b = e.tgt.rsplit('/', 2)[0].split('/')[:-1]
        c = []
        for x, y in zip(a, b):
            if x == y:
                c.append(x)
            else:
                break
        return '/'.join(c)

    def emit_level(prefix, names, lvl_name):
        heads = {}
        for n in names:
            h, _, rest = n.partition('/')
            heads.setdefault(h, []).append(rest)
        leaf = all(r == [''] for r in heads.values())
        sub = {}
        if not leaf:
            for h, rest in heads.items():
                p = (prefix + '/' + h) if prefix else h
                cname = f"circ_{p.replace('/', '_')}"
                emit_level(p, rest, cname)
                sub[h] = cname
        L.append(f"{lvl_name}:")
        L.append("  base: CircuitTemplate")
        if leaf:
            L.append("  nodes:")
            for h in heads:
                full = (prefix + '/' + h) if prefix else h
                ns = spec.nodes[full]
                L.append(f"    {h}: {(ns.template or full.replace('/', '_'))}_tpl")
        else:
            L.append("  circuits:")
            for h, cname in sub.items():
                L.append(f"    {h}: {cname}")
        inner = [e for e in spec.edges if common_prefix(e) == prefix]
        if inner:
            L.append("  edges:")
            for e in inner:
                L.append(edge_line(e, prefix))
        L.append("")

    emit_level('', list(spec.nodes), top)
    return '\n'.join(L)


def build_yaml(spec, roundtrip=False, derived=None):
    """write the spec as YAML into a scratch directory and load it through the real frontend"""
    from pyrates import CircuitTemplate
    from . import tv
    d = tv.scratch_dir()
    path = os.path.join(d, 'model.yaml')
    with open(path, 'w') as f:
        f.write(spec_to_yaml_text(spec, derived=derived))
    ct = CircuitTemplate.from_yaml(f"{d}/model/top")
    if roundtrip:
        ct = roundtrip_template(ct)
    return ct


def roundtrip_template(ct):
    """to_yaml -> from_yaml of an in-memory CircuitTemplate"""
    from pyrates import CircuitTemplate
    from . import tv
    d = tv.scratch_dir()
    ct.to_yaml(f"{d}/rt.yaml")
    return CircuitTemplate.from_yaml(f"{d}/rt/{ct.name}")


def _decoy(spec):
    """the same model with other numbers: every edge weight and every per-node value changed"""
    import copy
    from fractions import Fraction as F
    d = copy.deepcopy(spec)
    for e in d.edges:
        e.weight = (e.weight if e.weight is not None else F(1)) + F(3, 8)
    for ns in d.nodes.values():
        for k in list(ns.overrides):
            ns.overrides[k] = ns.overrides[k] + F(5, 8)
    return d


def build_rewritten(spec, how):
    """a file that is written, loaded, written AGAIN with other contents and loaded again (template caches cleared in
    between, as a user who edits a model file between two loads would): the second load must see the second contents.
    how = 'yaml' (hand-written text) | 'roundtrip' (to_yaml of Python-built templates)"""
    from pyrates import CircuitTemplate, clear_frontend_caches
    from .spec import build_python
    from . import tv
    d = tv.scratch_dir()
    for sp in (_decoy(spec), spec):
        if how == 'yaml':
            with open(os.path.join(d, 'model.yaml'), 'w') as f:
                f.write(spec_to_yaml_text(sp))
            ct = CircuitTemplate.from_yaml(f"{d}/model/top")
        else:
            build_python(sp).to_yaml(f"{d}/rt.yaml")
            ct = CircuitTemplate.from_yaml(f"{d}/rt/{sp.name}")
        clear_frontend_caches()
    return ct
