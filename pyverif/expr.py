"""Tiny expression AST used by model specifications.

An Expr is one of
  ('c', Fraction)            numeric constant
  ('v', name)                variable
  ('+', a, b) ('-', a, b) ('*', a, b) ('/', a, b)
  ('^', a, int)              integer power
  ('neg', a)
  ('call', fname, [args])    function of the equation language
  ('past', name, delay_expr) delayed state variable
The AST is rendered to PyRates equation text (with controlled surface variation) and evaluated by
the reference semantics over any number-like domain (Sym or float).
"""
from fractions import Fraction
import math
import random


def C(x):
    return ('c', Fraction(x))


def V(n):
    return ('v', n)


def add(a, b): return ('+', a, b)
def sub(a, b): return ('-', a, b)
def mul(a, b): return ('*', a, b)
def div(a, b): return ('/', a, b)
def neg(a): return ('neg', a)
def pw(a, n): return ('^', a, int(n))
def rpw(a, q): return ('^', a, Fraction(q))      # rational exponent, written x^(p/q)
def call(f, *args): return ('call', f, list(args))
def past(name, d): return ('past', name, d)


def variables(e, acc=None):
    acc = set() if acc is None else acc
    k = e[0]
    if k == 'v':
        acc.add(e[1])
    elif k == 'c':
        pass
    elif k in '+-*/':
        variables(e[1], acc); variables(e[2], acc)
    elif k in ('^', 'neg'):
        variables(e[1], acc)
    elif k == 'call':
        for a in e[2]:
            variables(a, acc)
    elif k == 'past':
        acc.add(e[1]); variables(e[2], acc)
    return acc


def fmt_const(fr: Fraction, style=0):
    fr = Fraction(fr)
    if fr.denominator == 1:
        n = fr.numerator
        return [f"{n}.0", f"{n}", f"{n}."][style % 3] if n >= 0 else f"({n}.0)"
    x = float(fr)
    assert Fraction(x) == fr or abs(Fraction(x) - fr) < Fraction(1, 10 ** 15), fr
    s = repr(x)
    if style % 3 == 2 and s.startswith('0.'):
        s = s[1:]
    return s if x >= 0 else f"({s})"


_PREC = {'+': 1, '-': 1, '*': 2, '/': 2, 'neg': 3, '^': 4}


def render(e, rnd: random.Random = None, style=None):
    """Render to PyRates equation syntax.  style: dict(space, pow, parens, cstyle)."""
    st = dict(space=1, pow='^', parens=0, cstyle=0, past='past')
    if style:
        st.update(style)
    sp = ' ' if st['space'] else ''

    def go(x, parent_prec=0, right=False):
        k = x[0]
        if k == 'c':
            return fmt_const(x[1], st['cstyle'])
        if k == 'v':
            return x[1]
        if k == 'call':
            return f"{x[1]}({(',' + sp).join(go(a) for a in x[2])})"
        if k == 'past':
            if st['past'] == 'call-split' and x[2][0] == 'c' and x[2][1] > Fraction(1, 4):
                # the x(t-a-b) notation: a numeric delay written as two subtractions, a + b = delay
                return f"{x[1]}(t{sp}-{sp}{float(x[2][1] - Fraction(1, 4))}{sp}-{sp}0.25)"
            if st['past'] in ('call', 'call-split'):          # the x(t-tau) notation
                return f"{x[1]}(t{sp}-{sp}{go(x[2], 2, True)})"
            return f"past({x[1]},{sp}{go(x[2])})"
        if k == 'neg':
            s = f"-{go(x[1], _PREC['neg'])}"
            # unary minus binds weaker than ^ and is awkward after operators: always parenthesise inside
            return f"({s})" if parent_prec > 0 else s
        if k == '^':
            base = go(x[1], _PREC['^'] + 1)
            n = x[2]
            if isinstance(n, Fraction) and n.denominator != 1:
                s = f"{base}{st['pow']}({n.numerator}/{n.denominator})"
            else:
                s = f"{base}{st['pow']}{n}" if n >= 0 else f"{base}{st['pow']}({n})"
            return f"({s})" if (parent_prec > _PREC['^'] or st['parens']) else s
        p = _PREC[k]
        a = go(x[1], p, False)
        b = go(x[2], p, True)
        s = f"{a}{sp}{k}{sp}{b}"
        need = parent_prec > p or (parent_prec == p and right) or (st['parens'] and parent_prec > 0)
        return f"({s})" if need else s

    return go(e)


# ---- evaluation over an abstract numeric domain ---------------------------------------------

class Dom:
    """numeric domain: const(Fraction)->value, call(fname, args)->value; + - * / ** via operators"""

    def const(self, fr):
        raise NotImplementedError

    def call(self, f, args):
        raise NotImplementedError


class FloatDom(Dom):
    def const(self, fr):
        return float(fr)

    def call(self, f, args):
        import numpy as np
        t = {
            'exp': math.exp, 'log': math.log, 'sin': math.sin, 'cos': math.cos, 'tan': math.tan,
            'tanh': math.tanh, 'sinh': math.sinh, 'cosh': math.cosh, 'arctan': math.atan, 'arcsin': math.asin,
            'arccos': math.acos, 'sqrt': math.sqrt,
            'sigmoid': lambda x: 1.0 / (1.0 + math.exp(-x)),
            'absv': abs, 'abs': abs,
            'sign': lambda x: float(np.sign(x)),
            'maxi': max, 'mini': min,
        }
        return t[f](*args)


def evaluate(e, env, dom: Dom, past_fn=None):
    k = e[0]
    if k == 'c':
        return dom.const(e[1])
    if k == 'v':
        v = env(e[1]) if callable(env) else env[e[1]]
        return v
    if k == 'neg':
        return -evaluate(e[1], env, dom, past_fn)
    if k == '^':
        return evaluate(e[1], env, dom, past_fn) ** e[2]
    if k == 'call':
        return dom.call(e[1], [evaluate(a, env, dom, past_fn) for a in e[2]])
    if k == 'past':
        return past_fn(e[1], evaluate(e[2], env, dom, past_fn))
    a = evaluate(e[1], env, dom, past_fn)
    b = evaluate(e[2], env, dom, past_fn)
    if k == '+':
        return a + b
    if k == '-':
        return a - b
    if k == '*':
        return a * b
    if k == '/':
        return a / b
    raise ValueError(k)
