"""Forward-mode automatic differentiation over symx values: Dual(primal Sym, tangent {key: Sym}).

Running the emitted vector-field text on Dual state entries yields the exact symbolic partial derivatives of THE
FUNCTION get_run_func RETURNED (not of the model), which is what get_jacobian_func must reproduce."""
import numpy as np
import z3

from . import symx
from .symx import Sym, as_sym


def _tadd(a, b, sa=1, sb=1):
    out = {}
    for k, v in a.items():
        out[k] = v * sa if sa != 1 else v
    for k, v in b.items():
        t = v * sb if sb != 1 else v
        out[k] = out[k] + t if k in out else t
    return out


def _tscale(a, s):
    return {k: v * s for k, v in a.items()}


class Dual:
    __array_priority__ = 2000

    def __init__(self, p, t=None):
        self.p = as_sym(p)
        self.t = t or {}

    @staticmethod
    def lift(x):
        if isinstance(x, Dual):
            return x
        return Dual(as_sym(x), {})

    def __add__(self, o):
        if isinstance(o, np.ndarray) and o.ndim > 0:
            return NotImplemented
        o = Dual.lift(o)
        return Dual(self.p + o.p, _tadd(self.t, o.t))
    __radd__ = __add__

    def __sub__(self, o):
        o = Dual.lift(o)
        return Dual(self.p - o.p, _tadd(self.t, o.t, 1, -1))

    def __rsub__(self, o):
        o = Dual.lift(o)
        return Dual(o.p - self.p, _tadd(o.t, self.t, 1, -1))

    def __mul__(self, o):
        if isinstance(o, np.ndarray) and o.ndim > 0:
            return NotImplemented
        o = Dual.lift(o)
        return Dual(self.p * o.p, _tadd(_tscale(self.t, o.p), _tscale(o.t, self.p)))
    __rmul__ = __mul__

    def __truediv__(self, o):
        o = Dual.lift(o)
        q = self.p / o.p
        return Dual(q, _tadd(_tscale(self.t, 1 / o.p), _tscale(o.t, q / o.p), 1, -1))

    def __rtruediv__(self, o):
        return Dual.lift(o) / self

    def __neg__(self):
        return Dual(-self.p, _tscale(self.t, -1))

    def __pos__(self):
        return self

    def __pow__(self, n):
        if isinstance(n, Dual):
            if n.t:
                raise symx.Unsupported('variable exponent')
            n = n.p
        if isinstance(n, Sym):
            c = symx.const_value(n.e)
            if c is None:
                raise symx.Unsupported('symbolic exponent')
            n = c
        if isinstance(n, (float, np.floating)):
            fr = symx.rationalize(float(n))
            n = int(fr) if fr.denominator == 1 else fr
        from fractions import Fraction
        if isinstance(n, Fraction) and n.denominator == 1:
            n = int(n)
        if isinstance(n, (int, np.integer)):
            n = int(n)
            if n == 0:
                return Dual(symx.val(1), {})
            return Dual(self.p ** n, _tscale(self.t, (self.p ** (n - 1)) * n))
        if isinstance(n, Fraction) and n == Fraction(1, 2):
            return self.sqrt()
        raise symx.Unsupported(f'power {n}')

    def _chain(self, val, dval):
        return Dual(val, _tscale(self.t, dval))

    def exp(self):
        e = self.p.exp()
        return self._chain(e, e)

    def log(self):
        return self._chain(self.p.log(), 1 / self.p)

    def sin(self):
        return self._chain(self.p.sin(), self.p.cos())

    def cos(self):
        return self._chain(self.p.cos(), -self.p.sin())

    def tan(self):
        t = self.p.tan()
        return self._chain(t, 1 + t * t)

    def tanh(self):
        t = self.p.tanh()
        return self._chain(t, 1 - t * t)

    def sinh(self):
        return self._chain(self.p.sinh(), self.p.cosh())

    def cosh(self):
        return self._chain(self.p.cosh(), self.p.sinh())

    def arctan(self):
        return self._chain(self.p.arctan(), 1 / (1 + self.p * self.p))

    def sqrt(self):
        s = self.p.sqrt()
        return self._chain(s, 1 / (2 * s))

    def __abs__(self):
        return self._chain(abs(self.p), self.p.sign())

    def sign(self):
        return Dual(self.p.sign(), {})

    def conjugate(self):
        return self

    def __repr__(self):
        return f"Dual({self.p}, {list(self.t)})"

    # comparisons act on the primal
    def __lt__(self, o): return self.p < Dual.lift(o).p
    def __le__(self, o): return self.p <= Dual.lift(o).p
    def __gt__(self, o): return self.p > Dual.lift(o).p
    def __ge__(self, o): return self.p >= Dual.lift(o).p


def dmax(a, b):
    a, b = Dual.lift(a), Dual.lift(b)
    c = a.p >= b.p
    keys = set(a.t) | set(b.t)
    zero = symx.val(0)
    return Dual(symx.ite(c, a.p, b.p), {k: symx.ite(c, a.t.get(k, zero), b.t.get(k, zero)) for k in keys})


def dmin(a, b):
    a, b = Dual.lift(a), Dual.lift(b)
    c = a.p <= b.p
    keys = set(a.t) | set(b.t)
    zero = symx.val(0)
    return Dual(symx.ite(c, a.p, b.p), {k: symx.ite(c, a.t.get(k, zero), b.t.get(k, zero)) for k in keys})
