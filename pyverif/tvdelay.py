"""Plugins for translation validation of delayed models.

RingBufferPlugin (fixed step, C09): one inductive step of the ring buffers.  The buffer arguments of the emitted
  function are filled with fresh symbols; after the symbolic call every buffer row must (i) hold the current value of
  exactly one model variable in slot 0 and (ii) have shifted its old content by one slot.  Row contents are then read
  as the history of that variable (old slot j = value j+1 steps ago) and the emitted derivatives are compared with the
  reference in which a delayed edge delivers its source round(d/dt) steps ago.  One step from an arbitrary valid
  buffer covers runs of any length.
ChainPlugin (C11): gamma-kernel chains.  State positions that belong to no declared variable are auxiliary; each
  must have the form d/dt z = k*(prev - z); the chain graph (prev relation) is discovered with the solver and every
  auxiliary state gets the canonical name (source variable, tuple of rates along its path).
HistPlugin (adaptive / past(), C10): hist is a symbolic history whose components are uninterpreted functions of time.
"""
from fractions import Fraction as F

import numpy as np
from pyverif.tv import tv_to_np
import z3

from . import symx, decide, refsem
from .symx import Sym, SArr


def _is_torch(a):
    return hasattr(a, 'detach') and hasattr(a, 'clone')


def _conc_args(c):
    return [np.array(a, copy=True) if isinstance(a, np.ndarray) else (a.clone() if _is_torch(a) else a) for a in c.args]


def find_state_carrying_args(c):
    """positions of array arguments that the emitted function uses as shifting buffers: filled with distinct marker
    values, some cell holds after the call the marker of a DIFFERENT cell (a roll).  Temporaries that are merely
    overwritten, or keep unwritten cells as they were, do not qualify."""
    out = []
    for p, a0 in enumerate(c.args):
        if p < 3 or callable(a0) and not hasattr(a0, 'shape'):
            continue
        a = np.asarray(a0.detach().cpu().numpy() if _is_torch(a0) else a0) if hasattr(a0, 'shape') else None
        if a is None or a.dtype.kind != 'f' or a.ndim < 1 or a.size < 2:
            continue
        args = _conc_args(c)
        marker = 1000.0 + np.arange(a.size, dtype=float).reshape(a.shape) * 7.0
        if _is_torch(a0):
            import torch
            args[p] = torch.from_numpy(marker.copy()).to(a0.dtype)
        else:
            args[p] = marker.astype(a.dtype).copy()
        try:
            c.func(*args)
        except Exception:   # noqa
            continue
        post = np.asarray(args[p].detach().cpu().numpy() if _is_torch(args[p]) else args[p], dtype=float)
        flat_pre = marker.reshape(-1)
        flat_post = post.reshape(-1)
        moved = False
        for i, v in enumerate(flat_post):
            hits = np.nonzero(flat_pre == v)[0]
            if len(hits) and hits[0] != i:
                moved = True
                break
        if moved:
            out.append(p)
    return out


def hist_sym(path, m):
    return symx.real(f"H|{'/'.join(path)}|{m}")


class RingBufferPlugin:
    def __init__(self, dt):
        self.dt = F(dt)
        self.buffers = {}

    def arg_overrides(self, c, binding, t_sym):
        ov = {}
        # y must be non-trivial for the detection run: use the returned initial state (fingerprints, non-zero)
        for p in find_state_carrying_args(c):
            a = np.asarray(tv_to_np(c.args[p]))
            sym = symx.symarray(f"B{p}", a.shape)
            ov[p] = sym
            self.buffers[p] = (sym, np.array(sym, copy=True))      # (live array mutated by the call, pre-state symbols)
        return dict(args=ov)

    def after_run(self, ctx):
        spec, res, tally = ctx.spec, ctx.res, ctx.tally
        R0 = refsem.Ref(spec, refsem.SymDom(), ctx.P, ctx.Y, ctx.W, ctx.EP)
        cands = []
        for n, ns in spec.nodes.items():
            for o in ns.ops:
                for v, (kind, _) in spec.ops[o].vars.items():
                    if kind in ('state', 'alg'):
                        cands.append(((n, o, v), R0.value(n, o, v)))
        subs = []
        row_src = {}
        for p, (live, pre) in self.buffers.items():
            post = np.asarray(live, dtype=object)
            pre2 = pre.reshape(-1, pre.shape[-1]) if pre.ndim > 1 else pre.reshape(1, -1)
            post2 = post.reshape(pre2.shape)
            R_, L = pre2.shape
            for r in range(R_):
                written = post2[r, 0]
                src = None
                for path, val in cands:
                    v, _ = decide.prove_equal(written, val, pc=ctx.pc, tally=tally)
                    if v == 'unsat':
                        src = path
                        break
                if src is None:
                    res['violations'].append(dict(kind='ring-buffer', what=f"delay buffer {ctx.c.keys[p]} row {r}: slot 0 "
                                                  f"does not hold the current value of any model variable after the "
                                                  f"call: {str(written)[:160]}"))
                    ctx.abort = True
                    continue
                row_src[(p, r)] = src
                for j in range(1, L):
                    v, _ = decide.prove_equal(post2[r, j], pre2[r, j - 1], pc=ctx.pc, tally=tally)
                    if v != 'unsat':
                        res['violations'].append(dict(kind='ring-buffer', what=f"delay buffer {ctx.c.keys[p]} row {r}: "
                                                      f"slot {j} after the call is not the old slot {j - 1}"))
                        ctx.abort = True
                        break
                for j in range(L):
                    h = hist_sym(src, j + 1)
                    subs.append((symx.lift(pre2[r, j]), h.e))
                    ix = (r, j) if pre.ndim > 1 else (j,)
                    ctx.binding.slots.append((ctx.c.keys[p], ix, str(h.e)))
        if ctx.abort:
            return
        if subs:
            out = np.empty(ctx.out.shape, dtype=object)
            for i, cell in enumerate(ctx.out):
                out[i] = Sym(z3.substitute(symx.lift(cell), *subs))
            ctx.out = out
        dt = self.dt

        def delayed(i, e, undelayed):
            D = round(F(e.delay) / dt) if e.delay is not None else 0
            if D < 2:
                # a delay of at most one integration step is neglected (documented behaviour, C09 leaves it out)
                return undelayed()
            sn, so, sv = e.src.rsplit('/', 2)
            if e.template:
                raise NotImplementedError('delayed edge with template')
            return hist_sym((sn, so, sv), D)
        ctx.delayed = delayed


class HistPlugin:
    """hist(tau) -> vector of uninterpreted H_i(tau); reference reads component pos(x) at time - delay"""

    def __init__(self, dt, adaptive):
        self.dt = F(dt)
        self.adaptive = adaptive
        self.H = None

    def arg_overrides(self, c, binding, t_sym):
        ny = int(np.asarray(tv_to_np(c.args[1])).size)
        self.H = [symx.UF(f"Hist{i}", 1) for i in range(ny)]
        H = self.H

        def hist(tau):
            te = symx.lift(tau)
            return SArr([Sym(H[i](te)) for i in range(ny)])
        self.hist_float = lambda tau: np.array([symx.hist_component(i, float(tau)) for i in range(ny)])
        return dict(hist=hist)

    def after_run(self, ctx):
        H = self.H
        t = ctx.t_sym
        time = symx.as_sym(t) if self.adaptive else symx.as_sym(t) * symx.val(self.dt)

        def delayed(i, e, undelayed):
            d = F(e.delay)
            sn, so, sv = e.src.rsplit('/', 2)
            if (sn, so, sv) not in ctx.pos:
                raise NotImplementedError('delayed edge from a non-state variable under an adaptive solver')
            return Sym(H[ctx.pos[(sn, so, sv)][0]]((time - symx.val(d)).e))

        def past(node, op):
            def f(var, delay_value):
                return Sym(H[ctx.pos[(node, op, var)][0]]((time - symx.as_sym(delay_value)).e))
            return f
        ctx.delayed = delayed
        ctx.past = past


class ChainPlugin:
    """gamma-kernel chains realised as auxiliary first-order stages"""

    def __init__(self, order_of=None):
        self.order_of = order_of or (lambda e: round((F(e.delay) / F(e.spread)) ** 2))
        self.aux_info = {}

    def arg_overrides(self, c, binding, t_sym):
        return {}

    def after_run(self, ctx):
        spec, res, tally = ctx.spec, ctx.res, ctx.tally
        used = {p[0] for p in ctx.pos.values()}
        aux = [j for j in range(ctx.ny) if j not in used]
        y0 = np.asarray(ctx.c.args[1], dtype=float).reshape(-1)
        for j in aux:
            if y0[j] != 0.0:
                res['violations'].append(dict(kind='chain', what=f"auxiliary state at position {j} starts at {y0[j]}, "
                                              f"the kernel chain must start empty"))
        R0 = refsem.Ref(spec, refsem.SymDom(), ctx.P, ctx.Y, ctx.W, ctx.EP)
        src_cands = []
        for n, ns in spec.nodes.items():
            for o in ns.ops:
                for v, (kind, _) in spec.ops[o].vars.items():
                    if kind in ('state', 'alg'):
                        src_cands.append(((n, o, v), R0.value(n, o, v)))
        info = {}
        for j in aux:
            yj = symx.lift(ctx.y_sym[j])
            g = symx.lift(ctx.out[j])
            g0 = z3.substitute(g, (yj, z3.RealVal(0)))
            g1 = z3.substitute(g, (yj, z3.RealVal(1)))
            k = z3.simplify(g0 - g1)
            kc = symx.const_value(k)
            if kc is None or kc == 0:
                res['violations'].append(dict(kind='chain', what=f"auxiliary state {j}: derivative is not of the form "
                                              f"k*(prev - z) with a constant rate (k = {k})"))
                ctx.abort = True
                continue
            prev = Sym(g0 / symx.rv(kc))
            # linearity: g == k*(prev - y_j)
            v, _ = decide.prove_equal(Sym(g), symx.val(kc) * (prev - ctx.y_sym[j]), pc=ctx.pc, tally=tally)
            if v != 'unsat':
                res['violations'].append(dict(kind='chain', what=f"auxiliary state {j}: derivative is not linear in its "
                                              f"own state"))
                ctx.abort = True
                continue
            pred = None
            for b in aux:
                if b != j:
                    v, _ = decide.prove_equal(prev, ctx.y_sym[b], pc=ctx.pc, tally=tally)
                    if v == 'unsat':
                        pred = ('aux', b)
                        break
            if pred is None:
                for path, val in src_cands:
                    v, _ = decide.prove_equal(prev, val, pc=ctx.pc, tally=tally)
                    if v == 'unsat':
                        pred = ('src', path)
                        break
            if pred is None:
                res['violations'].append(dict(kind='chain', what=f"auxiliary state {j}: its input {str(prev)[:120]} is "
                                              f"neither a model variable nor another stage"))
                ctx.abort = True
                continue
            info[j] = (kc, pred)
        if ctx.abort:
            return

        def canon(j, seen=()):
            kc, pred = info[j]
            if j in seen:
                raise ValueError('cyclic chain')
            if pred[0] == 'src':
                return pred[1], (kc,)
            s, rates = canon(pred[1], seen + (j,))
            return s, rates + (kc,)
        subs = []
        self.aux_info = {}
        for j in aux:
            try:
                s, rates = canon(j)
            except ValueError:
                res['violations'].append(dict(kind='chain', what=f"auxiliary states form a cycle at {j}"))
                ctx.abort = True
                return
            self.aux_info[j] = (s, rates)
            z = chain_sym(s, rates)
            subs.append((symx.lift(ctx.y_sym[j]), z.e))
            ctx.y_names[j] = str(z.e)
        out = np.empty(ctx.out.shape, dtype=object)
        for i, cell in enumerate(ctx.out):
            out[i] = Sym(z3.substitute(symx.lift(cell), *subs)) if subs else cell
        ctx.out = out
        # replay support: positions keep their y_j names in env; add aliases so evalf of substituted terms works
        ctx.res.setdefault('aliases', {}).update({str(z3.substitute(symx.lift(ctx.y_sym[j]), *subs)): f"y_{j}" for j in aux})
        order_of = self.order_of

        def delayed(i, e, undelayed):
            n = order_of(e)
            if n == 0:
                return undelayed()        # round((d/s)^2) = 0: no stage at all, the edge reads its source directly
            rate = F(n) / F(e.delay)
            sn, so, sv = e.src.rsplit('/', 2)
            if e.template:
                raise NotImplementedError
            return chain_sym((sn, so, sv), (rate,) * n)
        ctx.delayed = delayed


def chain_sym(src, rates):
    return symx.real(f"Z|{'/'.join(src)}|{','.join(str(r) for r in rates)}")


class EdgeStatePlugin:
    """state variables that live on edges (dynamic coupling operators): every state position that carries no declared
    node variable must be the state of exactly one (edge, operator, variable) of the explicit model - decided by z3:
    its emitted derivative equals that edge's differential equation with the position's own symbol standing for the
    edge state.  Positions that match no edge of the explicit model (pairs with weight 0 in a Connectivity) are
    counted; they cannot influence a node variable without breaking the node obligations."""

    def __init__(self):
        self.matched = {}
        self.unmatched = []

    def arg_overrides(self, c, binding, t_sym):
        return {}

    def after_run(self, ctx):
        spec, res, tally = ctx.spec, ctx.res, ctx.tally
        used = {p[0] for p in ctx.pos.values()}
        aux = [j for j in range(ctx.ny) if j not in used]
        cands = []
        for i, e in enumerate(spec.edges):
            if not e.template:
                continue
            for oname in spec.edge_tpls[e.template].ops:
                for v, (kind, _) in spec.ops[oname].vars.items():
                    if kind == 'state':
                        cands.append((i, oname, v))
        assign = {}
        for j in aux:
            for cand in cands:
                if cand in assign:
                    continue
                hook = (lambda jj, cc: (lambda i, o, v: ctx.y_sym[jj] if (i, o, v) == cc else symx.real(f"ES|{i}|{o}|{v}")))(j, cand)
                R = refsem.Ref(spec, refsem.SymDom(), ctx.P, ctx.Y, ctx.W, ctx.EP, edge_state=hook)
                try:
                    ref = R.edge_state_deriv(*cand)
                except Exception as ex:   # noqa
                    res['inconclusive'].append(dict(kind='spec', what=f"edge state reference: {ex}"))
                    ctx.abort = True
                    return
                v, _ = decide.prove_equal(ctx.out[j], ref, pc=ctx.pc, tally=tally)
                if v == 'unsat':
                    assign[cand] = j
                    ctx.y_names[j] = f"edge{cand[0]}/{cand[1]}/{cand[2]}"
                    break
            else:
                self.unmatched.append(j)
        missing = [c_ for c_ in cands if c_ not in assign]
        self.matched = assign
        res.setdefault('edge_states', dict(matched=len(assign), unmatched=len(self.unmatched), missing=len(missing)))
        if missing:
            e = spec.edges[missing[0][0]]
            res['violations'].append(dict(kind='edge-state', what=f"no state position follows the differential equation of "
                                          f"{missing[0][1]}/{missing[0][2]} on the edge {e.src} -> {e.tgt} "
                                          f"({len(missing)} of {len(cands)} edge states unmatched; "
                                          f"{len(self.unmatched)} auxiliary positions left over)"))
            ctx.abort = True
            return
        # several pairs can carry the SAME differential equation (a coupling operator without a target-side input gives
        # every pair of one source unit the same equation): positions with the same equation in their own state and the
        # same initial value are the same function of time (uniqueness of ODE solutions) and share one symbol
        y0 = np.asarray(ctx.c.args[1], dtype=float).reshape(-1)
        rep = {j: j for j in aux}
        zz = symx.real('ES|z')
        for a_i, j1 in enumerate(aux):
            if rep[j1] != j1:
                continue
            t1 = Sym(z3.substitute(symx.lift(ctx.out[j1]), (symx.lift(ctx.y_sym[j1]), zz.e)))
            for j2 in aux[a_i + 1:]:
                if rep[j2] != j2 or y0[j1] != y0[j2]:
                    continue
                t2 = Sym(z3.substitute(symx.lift(ctx.out[j2]), (symx.lift(ctx.y_sym[j2]), zz.e)))
                v, _ = decide.prove_equal(t1, t2, pc=ctx.pc, tally=tally)
                if v == 'unsat':
                    rep[j2] = j1
        subs = [(symx.lift(ctx.y_sym[j]), symx.lift(ctx.y_sym[r])) for j, r in rep.items() if j != r]
        if subs:
            out = np.empty(ctx.out.shape, dtype=object)
            for i, cell in enumerate(ctx.out):
                out[i] = Sym(z3.substitute(symx.lift(cell), *subs))
            ctx.out = out
            for j, r in rep.items():
                if j != r:
                    ctx.y_names[j] = ctx.y_names[r]
            res['edge_states']['merged'] = len(subs)
        ctx.edge_state = lambda i, o, v: ctx.y_sym[rep[assign[(i, o, v)]]]


class Composite:
    """several plugins at once (e.g. ring buffers for delayed edges + history for past() terms under a fixed step)"""

    def __init__(self, *plugins):
        self.plugins = plugins

    def arg_overrides(self, c, binding, t_sym):
        out = dict(args={})
        for p in self.plugins:
            ov = p.arg_overrides(c, binding, t_sym)
            out['args'].update(ov.get('args') or {})
            if ov.get('hist') is not None:
                out['hist'] = ov['hist']
            if hasattr(p, 'hist_float'):
                self.hist_float = p.hist_float
        return out

    def after_run(self, ctx):
        delayed_fns, past_fn = [], None
        for p in self.plugins:
            ctx.delayed, ctx.past = None, None
            p.after_run(ctx)
            if ctx.abort:
                return
            if ctx.delayed:
                delayed_fns.append((p, ctx.delayed))
            if ctx.past:
                past_fn = ctx.past

        def delayed(i, e, undelayed):
            # per edge: gamma kernels belong to the chain plugin, plain delays to the ring-buffer / history plugin
            for p, fn in delayed_fns:
                is_chain = isinstance(p, ChainPlugin)
                if (e.spread is not None) == is_chain:
                    return fn(i, e, undelayed)
            return delayed_fns[0][1](i, e, undelayed)
        ctx.delayed = delayed if delayed_fns else None
        ctx.past = past_fn
