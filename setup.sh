#!/bin/bash
# Build the overlay venv (offline) that holds z3 / cvc5 / crosshair on top of /venv's
# packages (numpy, sympy, torch, jax, pandas ...).  Idempotent.
set -e
cd "$(dirname "$0")"
V="$(pwd)/.venv"
if [ -x "$V/bin/python" ] && "$V/bin/python" -c "import z3, crosshair, cvc5" 2>/dev/null; then
  exit 0
fi
rm -rf "$V"
/venv/bin/python -m venv "$V"
SP=$("$V/bin/python" -c "import sysconfig; print(sysconfig.get_paths()['purelib'])")
printf "import site; site.addsitedir('/venv/lib/python3.12/site-packages')\n" > "$SP/_overlay.pth"
PIP_NO_INDEX=1 "$V/bin/pip" install -q --no-index --find-links /opt/veriftools/wheels crosshair-tool z3-solver cvc5
"$V/bin/python" -c "import z3, crosshair, cvc5"
