#!/usr/bin/env python3
"""development aid: rewrite the table of DESIGN.md section 11 from seeded/*/meta.json"""
import glob, json, re
p = '/verif/DESIGN.md'
s = open(p).read()
rows = []
n_det = n_all = 0
for f in sorted(glob.glob('/verif/seeded/*/meta.json'), key=lambda x: (x.split('/')[-2].split('-')[0], int(x.split('/')[-2].split('-')[1]))):
    m = json.load(open(f))
    file = m['files'][0].replace('pyrates/', '')
    det = sorted({k.split(':')[0] for k, v in m.get('checks', {}).items() if v['exit'] == 1})
    idx_ = int(m['name'].split('-')[1])
    rnd = 9 if idx_ >= 15 else 8 if idx_ >= 13 else 7 if idx_ >= 11 else 6 if idx_ >= 9 else 5 if idx_ >= 7 else 4 if idx_ >= 5 else 1 if idx_ <= 2 else (2 if m['name'].split('-')[0] in ('C01','C02','C03','C04','C06','C07','C09','C13','C14','C16') else 3)
    note = ''
    if m.get('neutralised'):
        note = ' (no longer a violation on the repaired tree)'
    else:
        n_all += 1
        n_det += bool(det)
    rows.append(f"| {m['name']} | {rnd} | `{file}` | {', '.join(det) if det else '-'}{note} |")
table = "| change | round | file | caught by (quick tier, final tree) |\n|---|---|---|---|\n" + '\n'.join(rows)
a = s.index('| change |')
b = s.index('\n\n', a)
s = s[:a] + table + s[b:]
s = re.sub(r"<!--SEEDCOUNT-->.*?<!--/SEEDCOUNT-->", f"<!--SEEDCOUNT-->{n_det} of {n_all}<!--/SEEDCOUNT-->", s, flags=re.S)
open(p, 'w').write(s)
print(n_det, 'of', n_all)
