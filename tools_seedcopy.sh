#!/bin/bash
# development aid: run a check against a scratch copy of /repo HEAD with one seeded patch applied (never touches /repo)
# usage: tools_seedcopy.sh <seed name> <check id> [check args...]
S=$1; C=$2; shift 2
D=$(mktemp -d /tmp/seedcopy_XXXX)
git -C /repo archive HEAD | tar -x -C $D
[ "$S" = clean ] || (cd $D && patch -p1 -s < /verif/seeded/$S/patch.diff) || { echo "patch failed"; rm -rf $D; exit 2; }
VERIF_REPO=$D VERIF_OUT=$D/_out /verif/check $C "$@" 2>&1 | grep -v "WARNING conda" | grep "^VIOLATION\|^\[\|what:\|HARNESS\|KNOWN" | awk 'NR<=6{print} {last=$0} END{print last}' | cut -c1-400
rm -rf $D
