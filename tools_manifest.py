#!/usr/bin/env python3
"""Regenerates MANIFEST.json from the table below (kept in one place so it stays valid)."""
import json, os
HERE = os.path.dirname(os.path.abspath(__file__))
BASE = "cd /repo && /venv/bin/python -m pytest -ra -q -p no:cacheprovider --timeout=900 --continue-on-collection-errors"

CHECKS = {}   # filled by register()
NA = {}


def register(pid, category, text, note, technique, design_ref, thorough=True):
    CHECKS[pid] = dict(
        property_id=pid,
        quick_cmd=f"./check {pid} --tier quick",
        **({'thorough_cmd': f"./check {pid} --tier thorough"} if thorough else {}),
        evidence_file=f"/verif/evidence/{pid}.json",
        replay_cmd_template="./check --replay {path}",
        engine="pyverif",
        level_claimed=dict(category=category, text=text, design_ref=design_ref),
        level_note=note,
        technique=technique,
    )


exec(open(os.path.join(HERE, 'manifest_table.py')).read())

props = [json.loads(l)['id'] for l in open(os.path.join(HERE, 'properties.jsonl'))]
na = [dict(property_id=p, reason=NA.get(p, 'check not built yet in this round; see DESIGN.md section 7 for the plan'))
      for p in props if p not in CHECKS]
m = dict(
    version=1,
    setup_cmd="./setup.sh",
    hooks=dict(guard="PYRATES_VERIF", enable="no source hooks: all instrumentation is monkey-patched from the harness "
               "process (PYRATES_VERIF=1 is exported by ./check but read by nothing in /repo)",
               baseline_off_cmd=BASE, source_commits=[], add_only=True),
    engines=[dict(name="pyverif", path="/verif/pyverif", serves_properties=sorted(CHECKS),
                  kind_free_text="translation validation: real PyRates compiles generated model specs; the emitted "
                  "function text and the real run-time kernels are executed symbolically (symx: operator overloading "
                  "over z3 terms inside NumPy object arrays; f90smt for Fortran text); z3 decides gen != ref against a "
                  "reference semantics; counterexamples are replayed on the real compiled function; CrossHair for "
                  "string/int helpers")],
    checks=[CHECKS[p] for p in props if p in CHECKS],
    not_applicable=na,
    notes="Solver-based checking of the real code. Bounds, stubs and what is outside each claim: DESIGN.md sections 6-9 "
          "and each evidence file. Exit codes: 0 held / only known findings, 1 VIOLATION, 3 harness error.",
)
json.dump(m, open(os.path.join(HERE, 'MANIFEST.json'), 'w'), indent=1)
print('checks:', sorted(CHECKS), 'not_applicable:', [x['property_id'] for x in na])
