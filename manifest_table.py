register('C01', 'translation_validation',
         "For every generated model (bounded families incl. parallel edges, multi-input operators, hierarchy, edge "
         "templates, adversarial identifiers) compiled by the real pipeline with vectorize on/off, z3 proves for every "
         "declared state variable that the emitted NumPy function's derivative equals the reference semantics of the "
         "spec for ALL states, parameters and weights (unsat of gen != ref); state layout and argument values are "
         "checked through value fingerprints. Counterexamples are replayed on the real compiled function.",
         "reals for floats; denominators != 0; program quantifier = bounded generated families; numpy library model "
         "validated per run; reference semantics trusted; known findings attributed only by proved defect models",
         "SMT translation validation of emitted code (symx + z3, QF_UFNRA)", "7/C01")
register('C19', 'model_checking',
         "The real DDEHistory class is executed symbolically (record times, record values and query time are z3 "
         "reals; bisect's comparisons fork paths); on every feasible path z3 proves the returned value equals the "
         "clamped piecewise-linear interpolant of the records, across 2-3 buffer-growth events, with the caller's "
         "arrays overwritten after update, and for bounded histories that an update is either recorded or refused.",
         "reals for floats; times strictly increasing; bounded number of updates (<=6 quick, <=12 thorough, 2100 with "
         "concrete times); up to three symbolic queries in arbitrary order on one object; dtype=object stands for float64, "
         "other dtypes (complex128, int64, float32) only through a concrete probe at the record times; exactness at the "
         "record times is decided separately in z3's floating-point theory (Float64, finite values <= 1e100); float() inside "
         "base_backend stubbed to identity on symbols",
         "symbolic execution of the real class (symx path exploration + z3)", "7/C19")
register('C03', 'model_checking',
         "Fixed-step part of the property. The real Euler/Heun kernels of the NumPy, Torch and JAX backends run "
         "symbolically with an UNINTERPRETED vector field and symbolic initial state; z3 proves each stored row is the "
         "right iterate, exactly round(T/dts) rows exist and all are written (so the result holds for every vector "
         "field). BaseBackend.run's time axis is explored over symbolic reals T, step (times[k] == k*step). The tail of "
         "CircuitTemplate.run (slicing, DataFrame, cutoff) is exercised by tag-flow runs over (T, dt, dts, cutoff) grids.",
         "reals for floats; steps <= 8/14, store_step <= 4/6, dt = 1/4 (all cadences) and 1/10 (store steps whose float "
         "quotient is inexact); the uninterpreted field follows the return-buffer convention probed on a real compiled "
         "model per backend; jax.lax.scan and torch.empty are library models; the "
         "glue layer is concrete enumeration; adaptive solvers (scipy solve_ivp/ode, diffrax) are NOT claimed: there is "
         "nothing to encode within reach (DESIGN.md section 9); their side of the interface is guarded by a concrete "
         "contract probe only (the callable handed to scipy.integrate.solve_ivp must not overwrite the array it returned)",
         "symbolic execution of the real solver kernels with uninterpreted vector field (symx + z3)", "7/C03")
register('C04', 'translation_validation',
         "Generated circuits (1-2 node types, 1..N structurally identical nodes, dense/sparse/diagonal/ring/fan-in/"
         "cross-type weight patterns, equal or distinct per-node parameters, edge templates) are compiled with "
         "vectorize=True and vectorize=False; for each setting z3 proves per frontend state variable that the emitted "
         "derivative equals the reference semantics for all states, parameters and weights, so the two settings are "
         "the same function. Per-node symbols are bound by value fingerprint, so a permutation inside a merged vector "
         "is a disequality.",
         "reals for floats; nodes per type <= 3/5; trajectories follow from equality of the vector field together with "
         "C03's kernel result (no separate trajectory obligations); delayed edges: the fixed ring-buffer programs of C09 and "
         "the mixed gamma/plain/undelayed programs of C11 with vectorize on and off, larger delay families under C09/C11",
         "SMT translation validation of emitted code, vectorize on vs off (symx + z3)", "7/C04")
register('C15', 'translation_validation',
         "One generated spec is built four ways - Python classes, YAML text through from_yaml, to_yaml -> from_yaml "
         "round trip (of the Python-built and of the YAML-loaded template) and base:-derived operators with equation "
         "edits over identifiers that contain one another, plus one file path written twice (a decoy with other numbers "
         "first, loaded, caches cleared, then the model; hand-written YAML and to_yaml) - and each emitted function is proved by z3 equal to the same "
         "reference semantics for all states and parameters. CrossHair decides parser.replace on symbolic equation/term "
         "strings against a whole-identifier reference (confirmed over all paths within the bound).",
         "reals for floats; YAML emitter of the harness is trusted; edits are compared with token-level edits of the "
         "spec; CrossHair bounds |eq| <= 3/5 over {r,x,_,space,+,=} and |eq| <= 3/4 over r plus every delimiter sign in three groups (^*/-( ).,%@ []:<>!), |term| <= 2; _update_equation itself is not "
         "decidable by CrossHair (sys.intern realises symbolic strings) and is covered through the derived-template "
         "pipeline only",
         "SMT translation validation across frontends (symx + z3) + CrossHair on string helpers", "7/C15")
register('C05', 'translation_validation',
         "Random expression trees over the documented grammar (+ - * / ^, unary minus, nested calls of 15 functions, "
         "literals in several spellings, pi, identifier pools whose names contain one another) are rendered with random "
         "surface variation (spacing, ^ vs **, parentheses, d/dt * x vs x') into one-equation operators; z3 proves the "
         "emitted derivative AND the value produced by ComputeGraph.eval_node (lambdified sympy callables executed on "
         "symbols) equal the direct evaluation of the tree for all variable values. CrossHair confirms split_equation, "
         "the lhs derivative forms and unique-label generation over symbolic strings / label sequences. Powers with "
         "SYMBOLIC exponents (x^y = uninterpreted pow(x, y) on both sides) are evaluated through eval_node as sequences of "
         "2-3 expressions in one process, in all orders: each value must be what Python's arithmetic gives for the text, "
         "whatever was evaluated before.",
         "reals for floats; transcendentals are uninterpreted functions with instantiated lemmas, so a `sat` that does "
         "not reproduce numerically is inconclusive (e.g. constants folded by sympy in floating point); depth <= 3/5; "
         "calls whose arguments are all literals, index helpers and complex values are outside (the constants pi and E are generated); _preprocess_dde_syntax "
         "is regex based and covered through C10 programs only",
         "SMT translation validation of both evaluation paths (symx + z3) + CrossHair on string helpers", "7/C05")
register('C20', 'other',
         "CrossHair decides, for every string within the length bound, that each backend's _solve either raises or "
         "calls exactly the kernel named by the solver (Base, Torch, JAX, Fortran), that every reserved name / name part "
         "is rejected by check_vname, and that _validate_backend_args rejects exactly vectorised Fortran and path-less "
         "Julia. The finite matrix backend x solver x vectorize x delay kind (and backend x sparse x vectorize for "
         "Jacobians) and every malformed variant of a valid model (each path component of each edge endpoint, output, "
         "input, update misspelt; declaration removed; reserved name; two outputs; cyclic node; unknown operator) are "
         "executed against the real pipeline and classified raises / warns / returns against the class derived from the "
         "code's own declarations. History cells: every unsupported (backend, solver) pair is also requested AFTER the same "
         "solver name ran legally on the backends that declare it, in one process.",
         "the matrix and the malformed variants are exhaustive enumerations of finite spaces, not solver verdicts; "
         "Fortran cells end at the missing f2py/meson tool chain (the guard itself is decided by CrossHair); cells that "
         "return are not re-validated numerically here (see C02/C09/C10)",
         "CrossHair on guard functions (symbolic strings) + exhaustive configuration/malformed-variant enumeration", "7/C20")
register('C08', 'translation_validation',
         "The input array is an argument of the emitted function, so its samples are symbols. Fixed step: for every step "
         "k < N z3 proves that the derivative of every state variable equals the reference in which exactly the addressed "
         "variable(s) receive U[k] (column i for addressed node i, broadcast for 1-D, (N,1) as (N,)) on top of their other "
         "connections. Adaptive: t is a symbolic real in [0,T] and the reference value is the linear interpolation of the "
         "symbolic samples on the uniform grid j*T/(N-1) stated by the property (np.interp modelled as nested If and "
         "validated against NumPy on each run). Targets: single node, wildcards, one hierarchy level, several converging "
         "edges, vectorize on/off.",
         "reals for floats; N <= 5 (quick) / 9 (thorough); default backend (the torch/jax/Fortran interp helpers belong to "
         "C02); input defaults are 0 in this family; t outside [0,T] not claimed; the Euler integral of x'=u follows from "
         "this per-step result together with C03's kernel result",
         "SMT translation validation with symbolic input samples and symbolic time (symx + z3)", "7/C08")
register('C09', 'translation_validation',
         "One inductive step of the ring buffers, decided by z3: the emitted function is executed once on symbolic state "
         "AND symbolic buffer contents; it is proved that every buffer row afterwards holds the current value of exactly "
         "one model variable in slot 0 and its old content shifted by one slot (the representation invariant), and that "
         "every state variable's derivative equals the reference in which each delayed edge delivers weight x (source "
         "round(d/dt) steps ago) and undelayed edges the current value - for mixtures of delayed/undelayed edges, several "
         "delays per source or target, delays that are not multiples of dt, vectorize on and off. One step from an "
         "arbitrary valid buffer covers runs of any length; the zero pre-history is the initial buffer (checked "
         "concretely). Run level: the real Euler/Heun kernels integrate the emitted (stateful) text for K steps on symbolic "
         "state; afterwards every ring buffer must hold its source's recorded trajectory shifted by one slot per STEP "
         "(the Heun kernel evaluates the field twice per step and has to restore them, also for a decorated function).",
         "reals for floats; delays rounding to 2..4 (quick) / 2..7 (thorough) steps, <= 5 nodes, <= 5 edges; buffers are "
         "identified by a concrete marker run (a cell receives another cell's marker); Connectivity ring buffers are "
         "handled under C16; JAX refuses ring buffers (C20)",
         "SMT translation validation with symbolic ring-buffer contents (inductive step; symx + z3)", "7/C09")
register('C11', 'translation_validation',
         "The emitted function of circuits with (delay, spread) edges is executed symbolically; every state position "
         "that carries no declared variable is proved (z3) to be a first-order stage d/dt z = k*(prev - z) with constant "
         "k whose input prev is a model variable or another stage, which yields the chain graph; every declared state "
         "variable's derivative is then proved equal to the reference in which an edge (d, s) delivers weight x stage "
         "n = round((d/s)^2) of the chain of rate n/d of ITS OWN source - so order, rate, per-edge kernels, sharing of "
         "chains and source/target bookkeeping are all decided for every state value. Unit gain and mean delay d follow "
         "from the proved structure (n stages of rate n/d); auxiliary states start at 0 (checked on the returned state).",
         "reals for floats; order <= 4 (quick) / 9 (thorough); <= 3 nodes, <= 4 edges; the trajectory clause follows from "
         "vector-field equality plus C03's kernel result; Connectivity(delays, spread) under C16",
         "SMT translation validation with solver-discovered chain structure (symx + z3)", "7/C11")
register('C10', 'translation_validation',
         "Vector-field level: the emitted function is called with a SYMBOLIC history - hist(tau) returns one "
         "uninterpreted function of time per state component - and z3 proves every derivative equal to the reference that "
         "reads component pos(x) of hist at (time - tau), time = t for adaptive solvers and t*dt for fixed steps; function "
         "congruence forces both the time argument and the component index to be right, for past(x,tau), x(t-tau), several "
         "delays per variable, several delayed variables, and delayed edges under an adaptive solver (mixed with ring "
         "buffers under a fixed step). Run level: the real _solve_euler/_solve_heun with the real DDEHistory are executed "
         "symbolically with an uninterpreted delayed vector field and proved equal to the method-of-steps iterates with "
         "constant pre-history.",
         "reals for floats; convergence of dopri5 / solve_ivp to the DDE solution is NOT claimed (third-party adaptive "
         "integrators); DDEHistory's interpolation is C19; kernel bound: steps <= 6/10, delay 0..3 steps (multiples of dt), a complex128 state as a concrete probe, "
         "history capacity lowered to 2 in some kernels so that the buffer grows during the run (a job whose symbolic run "
         "breaks down on a never-written row is decided by the float replay on the real kernel); equal-valued delay "
         "parameters are told apart by calling the function with another value for one of them",
         "SMT translation validation with uninterpreted history functions (symx + z3)", "7/C10")
register('C06', 'translation_validation',
         "The real CircuitTemplate.run executes with a _solve stub that captures the compiled function/arguments/source "
         "and returns a tag matrix. The captured function goes through translation validation (z3 proves, with per-node "
         "distinct symbols, which model variable every state position computes); the DataFrame's cells reveal the state "
         "index each column carries. Obligations: the columns are exactly the requested variables (dict and list form, "
         "single node, several keys, 'all' at every level, partial wildcards, hierarchy depth <= 2) and the column whose "
         "label names variable V carries index pos(V) - for every tested permutation of the node declaration order "
         "(all 24 for 4 nodes in thorough) and vectorize on/off.",
         "reals for floats; label conventions: dict key (single match), (key, *node path, op/var) for wildcard matches, "
         "full path for list requests; the request/permutation quantifier is bounded enumeration; population outputs "
         "under C16, inputs under C08, edges under C01",
         "SMT translation validation of the function captured inside run() + tag flow (symx + z3)", "7/C06")
register('C07', 'translation_validation',
         "Circuits whose nodes share NodeTemplate/OperatorTemplate objects (and the same circuits without sharing) go "
         "through bounded histories of override operations - update_var scalar, wildcard scalar, per-node array, partial "
         "wildcard, edge-attribute update, apply(node_values=/edge_values=) - starting with per-node initial values. The "
         "expected model is the spec with exactly the addressed slots overridden; the compiled function is validated "
         "against it: fingerprints locate every overridden value in the returned arguments/initial state, and z3 proves "
         "the vector field equals the expected model for all states and parameters, so a value that reaches the wrong "
         "node, a sibling sharing the template, or nothing at all is a counterexample.",
         "reals for floats; histories are bounded sampling (2 initialising + <= 2/5 operations, 5 flat or 10 hierarchical "
         "nodes): the solver decides the function per history, not the history quantifier; update_template is exercised "
         "under C14/C15",
         "SMT translation validation after override histories (symx + z3)", "7/C07")
register('C14', 'translation_validation',
         "Each listed read-only / copy-making operation (run, get_run_func, get_jacobian_func with in_place=False, "
         "get_nodes, get_edges, get_edge, collect_edges with and without delay_info, get_node_template, __getitem__, "
         "to_yaml, deepcopy + edit of the copy, update_template + edit of the derived template, deriving an operator from "
         "a shared OperatorTemplate) and, in the thorough tier, every ordered pair of them is performed on flat and "
         "hierarchical in-memory templates with shared node/operator objects and per-node overrides; afterwards the SAME "
         "template is compiled with in_place=False and z3 proves every state variable's derivative equal to the reference "
         "semantics of the original spec (fingerprints check declared initial values and parameter values). run() twice "
         "is covered by the pair (run, run). Circuits of populations: a copy is derived without in_place, the copy's "
         "population values are edited, the BASE is compiled and proved to be the original model.",
         "reals for floats; operation sequences are bounded enumeration (singles / all ordered pairs); the solver decides "
         "function identity per sequence; 5 template shapes",
         "SMT translation validation of the template after non-mutating operations (symx + z3)", "7/C14")
register('C13', 'translation_validation',
         "Bounded histories of public API calls run in ONE process over decoy models that share an operator name (other "
         "equations), an operator structure and all names (other values/edges), template objects or the output file name "
         "with the target: construct, get_run_func (clear=False), get_jacobian_func, run with clear/in_place on and off, "
         "clear, clear_frontend_caches, to_yaml, editing a deep copy. Afterwards the target is compiled and z3 proves its "
         "emitted vector field equal to its own reference semantics (which knows nothing of the history), fingerprints "
         "check returned values, state-map names must be declared names; every function returned earlier is validated "
         "against its own model and must still return what it returned. A model FILE is loaded, the loaded template is "
         "edited (update_var on a node / an edge, with or without compiling, with or without clear_frontend_caches) and "
         "the same path is loaded again: the second load is proved to be the model the file describes. "
         "OperatorTemplate.apply is enumerated "
         "exhaustively over a pool of (name, equations, variables) pairs in both orders.",
         "reals for floats; the history quantifier is bounded: all single steps x 4 decoys, plus 16 (quick) / 400 (thorough) "
         "random histories of length 2-3 / 2-4; targets A (and C in thorough); CrossHair cannot decide "
         "OperatorTemplate.apply (sys.intern realises symbolic strings; patched hash() fails on OperatorIR.__hash__), so "
         "that unit is a finite enumeration",
         "SMT translation validation after API histories in one process (symx + z3)", "7/C13")
register('C17', 'translation_validation',
         "The real grid_search runs with a _solve stub that captures the single compiled function of the combined "
         "circuit and returns a tag matrix. Against the expected model - one independent copy of the base circuit per "
         "grid row with that row's values as distinct symbols - z3 proves every state variable of copy r has exactly the "
         "derivative of the single circuit with row r's parameters (the reference mentions only copy r's own state, so "
         "equality also proves the copies are uncoupled). The tag matrix shows the column labelled (key, circuit r, node, "
         "op/var) carries that variable; the returned parameter table must map circuit r to row r's values; extrinsic "
         "inputs reach every copy (symbolic samples). Node parameters, several targets per key, edge attributes, row "
         "order as given and reversed, vectorize on/off.",
         "reals for floats; rows <= 3 (quick) / 5 (thorough), base circuit of 3 nodes; grids carry one extra key per state "
         "variable so copies have distinct initial values; permute_grid is covered through linearize_grid (checked to "
         "be the cartesian product) - the sweep itself is the same code path; plotting utilities outside",
         "SMT translation validation of the function captured inside grid_search + tag flow (symx + z3)", "7/C17")
register('C16', 'translation_validation',
         "A population model is built twice through the real frontend - PopulationTemplate(n) + Connectivity objects, and "
         "the explicit network with one node per unit and one scalar edge per non-zero matrix entry - and both emitted "
         "functions are proved by z3 equal to the reference semantics of the EXPLICIT network for all states, per-unit "
         "parameters and weights: target_i = sum_j W[i,j]*source_j, scalar weight w*sum_j source_j, algebraic coupling "
         "edges evaluated per (target, source) pair with source and target variables, discrete delays (ring-buffer "
         "inductive step) and delay+spread (solver-discovered chains). Every matrix entry and per-unit value is its own "
         "symbol bound by value, so a transposition or a unit permutation changes the term. Population outputs of run() "
         "are checked by tag flow (one column per unit, in unit order).",
         "reals for floats; 1..3 units per population, two populations, sparse signed non-square matrices; dynamic "
         "coupling operators (one state per target/source pair) are located by z3 through their differential equation "
         "(population build only); two delayed connectivities per source variable; einsum is a library model validated "
         "per run",
         "SMT translation validation of population vs explicit network (symx + z3)", "7/C16")
register('C12', 'translation_validation',
         "The text emitted by get_run_func is executed in forward-mode automatic differentiation over z3 terms (state "
         "entries, and every value read from the symbolic history, are dual numbers), which yields the exact symbolic "
         "partial derivatives of THE FUNCTION THAT WAS RETURNED; the text emitted by get_jacobian_func is executed "
         "symbolically; z3 proves every entry (i, j) of every returned matrix equal to d f_i / d y_j (resp. "
         "d f_i / d hist(t - tau)[j] for each distinct delay), zero entries included, in the run function's state order. "
         "sparse=True goes through the same entries inside the csr container. Counterexamples are replayed with central "
         "differences of the real vector field in float64.",
         "reals for floats; scalar models (vectorize=False) with <= 5 states, <= 2-3 distinct delays; functions tanh sin "
         "cos exp sigmoid arctan sinh cosh absv tan, cubic/rational terms, algebraic intermediates, edges; abs at "
         "argument 0 excluded; default backend; the auto-07p DFDU/DFDP blocks belong to C18",
         "forward-mode AD of the emitted vector field vs emitted Jacobian, decided by z3 (symx)", "7/C12")
register('C02', 'translation_validation',
         "One generated spec is compiled for the NumPy, PyTorch, JAX and Fortran backends; the emitted text of each - "
         "Python text under the respective library model (incl. the helper defs PyRates prepends: sigmoid, wsum, torch "
         "interp with its Python branches explored path by path), Fortran 90 text through the f90smt interpreter (1-based "
         "bounds-checked arrays, integer literal typing, cshift, emitted finterp/fsigmoid helpers translated, not "
         "modelled) - is proved by z3 equal to the SAME reference semantics per state variable for all states and "
         "parameters, hence the backends agree. Both vector-field conventions (in-place buffer, returned array), "
         "vectorize on/off where allowed, one program per registered function, delay ring buffers (NumPy/Torch/Fortran), "
         "gamma chains, extrinsic inputs through each backend's interp/index code (symbolic samples and symbolic t). "
         "Returned argument values are compared by name across backends. The backends' own fixed-step kernels integrate "
         "one uninterpreted, time-dependent vector field and must all return the same reference iterates (small grid "
         "here, the full one in C03). A concrete probe (not solver-decided) checks that a float64 function keeps its "
         "value after a float32 model was compiled for the same backend. The KINDS of the module-level constants of the "
         "emitted Fortran module (invisible to a real-valued encoding) are decided by evaluating each initialiser under "
         "both kind assignments (binary32 for default-real literals / binary64 throughout): they must agree to 4 ulp; "
         "every default-real literal in an executable statement of a double precision procedure must be a value that "
         "binary32 holds exactly (decided on rationals).",
         "reals for floats: agreement 'to working precision' of the numerical libraries themselves (torch vs numpy exp) and "
         "float32 effects are not claimed; adaptive integrators outside; the Fortran function is replayed through a "
         "ctypes stand-in for the missing f2py/meson tool chain (same .f90 compiled with gfortran); GPU/Julia/Matlab "
         "outside",
         "SMT translation validation of emitted NumPy/Torch/JAX/Fortran text (symx + f90smt + z3)", "7/C02")
register('C18', 'translation_validation',
         "Models are exported with backend='fortran', auto=True and the written .f90 / c.* files are read back. The f90smt "
         "interpreter executes STPNT (value fingerprints identify which parameter / state sits in which PAR slot / state "
         "position), then FUNC through its forwarding call of the vector-field routine with PAR(slot) bound to the symbol "
         "of the parameter STPNT put there: z3 proves dy equal to the reference semantics, one equality tying STPNT, the "
         "forwarding call and the routine's signature order together. Every DFDU and DFDP entry is proved equal to the "
         "forward-mode derivative of the exported routine w.r.t. y and PAR(slot) (so the DFDP column is the slot). "
         "parnames/unames/NDIM/NPAR, slot order = declaration order, distinctness and the reserved range 10..14 are "
         "checked on the parsed c.* file; CrossHair confirms _auto_param_indices for every tuple length <= 40. The kinds "
         "of the STPNT literals are decided exactly (a default-real literal assigned to a double precision slot must be "
         "a value binary32 holds exactly; one program carries the values 1/10, 1/3, 7/5, 1/1000).",
         "reals for floats; 2..22 parameters per operator; auto-07p itself is not run; f2py is replaced by a gfortran + "
         "ctypes stand-in in the harness; DFDU/DFDP are assumed zero-initialised by the caller; the line-wrapping helpers "
         "are covered only through the exported programs (CrossHair does not decide them)",
         "f90smt symbolic execution of the exported Fortran + forward-mode AD + z3; CrossHair on slot arithmetic", "7/C18")
