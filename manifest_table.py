register('C01', 'translation_validation',
         "For every generated model (bounded families incl. parallel edges, multi-input operators, hierarchy, edge "
         "templates, adversarial identifiers) compiled by the real pipeline with vectorize on/off, z3 proves for every "
         "declared state variable that the emitted NumPy function's derivative equals the reference semantics of the "
         "spec for ALL states, parameters and weights (unsat of gen != ref); state layout and argument values are "
         "checked through value fingerprints. Counterexamples are replayed on the real compiled function.",
         "reals for floats; denominators != 0; program quantifier = bounded generated families; numpy library model "
         "validated per run; reference semantics trusted; known findings attributed only by proved defect models",
         "SMT translation validation of emitted code (symx + z3, QF_UFNRA)", "7/C01")
