#!/usr/bin/env python3
"""Seeded-change book-keeping (development aid, not a registered check).

  tools_seed.py confirm <wt> <i> <prop> <name>   confirm change i of worktree <wt> (demo passes on the clean worktree, fails
                                                 with the patch, pinned suite passes with the patch) and store it under
                                                 /verif/seeded/<name>/
  tools_seed.py run <name> [check ids...] [--tier T]   git -C /repo apply; run the checks with VERIF_OUT redirected;
                                                 git -C /repo checkout -- . ; record the outcome in meta.json
"""
import json, os, re, shutil, subprocess, sys

V = '/verif'
SUITE = ('/venv/bin/python -m pytest -q -p no:cacheprovider --timeout=900 --continue-on-collection-errors '
         '--deselect tests/test_auto_emission.py')


def sh(cmd, cwd=None, env=None, timeout=3600):
    r = subprocess.run(cmd, shell=True, cwd=cwd, env=env, capture_output=True, text=True, timeout=timeout)
    return r.returncode, (r.stdout + r.stderr)


def confirm(wt, i, prop, name):
    env = dict(os.environ, PYTHONPATH=wt)
    assert sh('git status --porcelain -- pyrates', wt)[1].strip() == '', 'worktree not clean'
    rc0, o0 = sh(f'/venv/bin/python demo{i}.py', wt, env, 1800)
    assert sh(f'git apply patch{i}.diff', wt)[0] == 0, 'patch does not apply'
    try:
        rc1, o1 = sh(f'/venv/bin/python demo{i}.py', wt, env, 1800)
        rct, ot = sh(SUITE, wt, env, 3600)
    finally:
        sh('git checkout -- pyrates; rm -f jrc2.py', wt)
    summ = [l for l in ot.splitlines() if re.search(r'\d+ passed|failed', l)][-1:]
    ok = rc0 == 0 and rc1 == 1 and rct == 0 and any('49 passed' in l for l in summ)
    print(f"{name}: demo clean rc={rc0}, demo patched rc={rc1}, suite rc={rct} {summ}")
    print('  patched demo says:', [l for l in o1.splitlines() if 'FAIL' in l][:1])
    if not ok:
        print('  NOT CONFIRMED'); return 1
    d = f'{V}/seeded/{name}'
    os.makedirs(d, exist_ok=True)
    shutil.copy(f'{wt}/patch{i}.diff', f'{d}/patch.diff')
    shutil.copy(f'{wt}/demo{i}.py', f'{d}/demo.py')
    meta = dict(name=name, property=prop, origin='sub-agent given only the property text and a scratch worktree',
                confirmed=dict(demo_clean_exit=rc0, demo_patched_exit=rc1, suite_with_patch=summ[0].strip() if summ else '',
                               demo_patched_output=[l for l in o1.splitlines() if 'FAIL' in l][:1]),
                files=sorted(set(re.findall(r'^\+\+\+ b/(\S+)', open(f'{d}/patch.diff').read(), re.M))))
    json.dump(meta, open(f'{d}/meta.json', 'w'), indent=1)
    return 0


def run(name, ids, tier):
    d = f'{V}/seeded/{name}'
    meta = json.load(open(f'{d}/meta.json'))
    ids = ids or [meta['property']]
    assert sh('git status --porcelain', '/repo')[1].strip() == '', '/repo not clean'
    out = f'{V}/scratch/seedout'
    res = {}
    if sh(f'git apply {d}/patch.diff', '/repo')[0] != 0:
        print(f"{name}: PATCH DOES NOT APPLY to the current /repo (needs re-creating on this tree)")
        meta['applies'] = False
        json.dump(meta, open(f'{d}/meta.json', 'w'), indent=1)
        return
    meta['applies'] = True
    try:
        for cid in ids:
            rc, o = sh(f'{V}/check {cid} --tier {tier}', V, dict(os.environ, VERIF_OUT=out), 7200)
            vio = [l for l in o.splitlines() if l.startswith('VIOLATION')]
            summ = [l for l in o.splitlines() if l.startswith(f'[{cid}]')][-1:]
            res[cid] = dict(tier=tier, exit=rc, violations=len(vio), summary=summ[0] if summ else o[-300:])
            print(f"{name} {cid} {tier}: exit={rc} violations={len(vio)} {summ[0] if summ else o[-300:]}")
            if vio:
                rp = vio[0].split('replay=')[-1].strip()
                try:
                    w = json.load(open(rp)).get('what', '')
                    res[cid]['first'] = w[:400]
                    print('   first:', w[:300])
                except Exception:
                    pass
    finally:
        sh('git checkout -- .', '/repo')
        shutil.rmtree(out, ignore_errors=True)
    assert sh('git status --porcelain', '/repo')[1].strip() == ''
    meta.setdefault('checks', {})
    for cid, r in res.items():
        meta['checks'][f'{cid}:{tier}'] = r
    meta['detected'] = any(r['exit'] == 1 for r in meta['checks'].values())
    json.dump(meta, open(f'{d}/meta.json', 'w'), indent=1)


if __name__ == '__main__':
    a = sys.argv[1:]
    if a[0] == 'confirm':
        sys.exit(confirm(a[1], a[2], a[3], a[4]))
    tier = 'quick'
    if '--tier' in a:
        k = a.index('--tier'); tier = a[k + 1]; del a[k:k + 2]
    run(a[1], a[2:], tier)
