from numpy import pi, sqrt, e as E
from numpy import tanh


def vf(t,y,dy,g,k,w,c,g_v1,k_v1,w_v1,c_v1,tau,g_v2,k_v2,c_v2,g_v3,k_v3,w_v3,c_v3,tau_v1,weight,weight_v1,weight_v2,weight_v3,weight_v4,weight_v5,weight_v6):


	x_v1 = y[0]
	x_v2 = y[1]
	x = y[2]
	x_v4 = y[3]
	x_v5 = y[4]
	x_v3 = y[5]
	u = weight*x
	u_v1 = weight_v1*x_v1
	u_v2 = weight_v2*x_v2
	w_v2 = weight_v3*x_v2
	u_v3 = weight_v4*x_v3
	u_v4 = weight_v5*x_v4
	u_v5 = weight_v6*x_v5
	
	dy[0] = c*w + g*tanh(u) - k*x_v1
	dy[1] = c_v1*w_v1 + g_v1*tanh(u_v1) - k_v1*x_v2
	dy[2] = (u_v2 - x)/tau
	dy[3] = c_v2*w_v2 + g_v2*tanh(u_v3) - k_v2*x_v4
	dy[4] = c_v3*w_v3 + g_v3*tanh(u_v4) - k_v3*x_v5
	dy[5] = (u_v5 - x_v3)/tau_v1

	return dy