from numpy import pi, sqrt, e as E
from numpy import dot
from numpy import tanh


def vf(t,y,dy,g,k,c,tau,w,u_in0,u_in1,source_idx,weight,target_idx,source_idx_in0,weight_in0,target_idx_in0,weight_in1,target_idx_in1,source_idx_v1,weight_v1):


	x = y[0:4]
	x_in1 = y[4:6]
	w[target_idx] = weight*x[source_idx]
	u_in0[target_idx_in0] = dot(weight_in0, x[source_idx_in0])
	u_in1[target_idx_in1] = dot(weight_in1, x_in1)
	u = u_in0 + u_in1
	u_v1 = dot(weight_v1, x[source_idx_v1])
	
	dy[0:4] = c*w + g*tanh(u) - k*x
	dy[4:6] = (u_v1 - x_in1)/tau

	return dy