#!/bin/bash
# run the pinned baseline suite of /repo (or $1) and print the summary line
R=${1:-/repo}
cd $R && timeout 1800 /venv/bin/python -m pytest -q -p no:cacheprovider --timeout=900 --continue-on-collection-errors 2>&1 | grep -E "passed|failed|FAILED|ERROR" | tail -8
