#!/usr/bin/env python3
"""development aid: apply one textual mutation to a scratch copy of /repo and run a check against it.
usage: tools_mut.py <check id> <relative file> <old> <new> [--tier quick] [--tests]"""
import os, shutil, subprocess, sys, tempfile
cid, rel, old, new = sys.argv[1:5]
extra = sys.argv[5:]
d = tempfile.mkdtemp(prefix='mut_', dir='/tmp')
try:
    subprocess.check_call(['rsync', '-a', '--exclude', '.git', '--exclude', '__pycache__', '/repo/', d + '/'])
    p = os.path.join(d, rel)
    s = open(p).read()
    assert s.count(old) >= 1, 'pattern not found'
    open(p, 'w').write(s.replace(old, new, 1))
    env = dict(os.environ, VERIF_REPO=d)
    if '--tests' in extra:
        extra.remove('--tests')
        r = subprocess.run('/venv/bin/python -m pytest -q -p no:cacheprovider --timeout=900 -x --deselect tests/test_auto_emission.py 2>&1 | tail -3', shell=True, cwd=d)
    r = subprocess.run(['/verif/check', cid] + extra, env=env, capture_output=True, text=True)
    lines = [l for l in r.stdout.splitlines() if l.startswith(('VIOLATION', '[', 'KNOWN'))]
    print('\n'.join(lines[:6] + lines[-2:]))
    print(r.stderr[-600:] if r.returncode not in (0, 1) else '')
    print('exit', r.returncode)
finally:
    shutil.rmtree(d, ignore_errors=True)
